"""gqlref - reference GraphQL implementation (June 2018 specification), pure python3 stdlib.

Transcribed from the specification text (http://spec.graphql.org/June2018/): section 2
(lexical + syntactic grammar, BlockStringValue), section 3 (type system definition
language) and section 5 (validation).  Importing this module has no side effects.

PUBLIC API
    parse_executable(text, **dialect) -> Document AST        (only operations / fragments)
    parse_schema(text, **dialect)     -> Document AST        (only type-system definitions / extensions)
    parse_document(text, **dialect)   -> Document AST        (any definition)
    tokenize(text)                    -> [(kind, lexeme, offset)]   (kind: Name Int Float String BlockString EOF or the punctuator)
    print_document(ast) / print_executable(ast) / print_schema(ast) -> str   (print_value, print_type for parts)
    build_schema(ast_list)            -> Schema   (ast_list: type-system Document ASTs: base schema + extensions)
    validate(schema, doc)             -> [GraphQLValidationError]   (spec section 5; .rule, .message)
    block_string_value(raw)           -> str     (spec algorithm BlockStringValue)
    is_name(s)                        -> bool
    GraphQLSyntaxError(code, message, pos)  raised on every syntax error (`code` is a coarse,
        deterministic cause: "<context>:expected-<what>:found-<token kind>")

DIALECT (keyword arguments of the parse functions; all default False = June 2018 exactly)
    variable_directives     directives on variable definitions            (spec >= 2021)
    interface_implements    `interface A implements B`                      (spec >= 2021)
    repeatable              `directive @d repeatable on ...`                (spec >= 2021)
    schema_description      description before `schema { }`                 (spec >= 2021)
    variable_definition_location   VARIABLE_DEFINITION directive location  (spec >= 2021)
    full_unicode            source characters above U+FFFF                   (spec >= 2021)
    POST_2018 is a dict switching all of them on.
  One rule of the October 2021 text is always applied because every implementation (graphql-js
  since 2018 included) applies it: a number token must not be directly followed by a digit, a
  letter, `_` or `.` (`0xF`, `1.`, `01`, `1e` are errors, not two tokens).

AST (plain dicts / lists / str / bool / None; json.dumps-able)
    Document            {kind, definitions}
    OperationDefinition {kind, operation, name|None, variableDefinitions, directives, selectionSet}
    FragmentDefinition  {kind, name, typeCondition, directives, selectionSet}
    VariableDefinition  {kind, variable, type, defaultValue|None, directives}
    Field               {kind, alias|None, name, arguments, directives, selectionSet|None}
    FragmentSpread      {kind, name, directives}
    InlineFragment      {kind, typeCondition|None, directives, selectionSet}
    Argument / ObjectField   {name, value}          Directive {name, arguments}
    types   {kind: NamedType, name} {kind: ListType, type} {kind: NonNullType, type}
    values  {kind: Variable, name} {kind: IntValue|FloatValue, value: lexeme}
            {kind: StringValue, value: cooked, block: bool, raw: text between the quotes}
            {kind: BooleanValue, value} {kind: NullValue} {kind: EnumValue, value}
            {kind: ListValue, values} {kind: ObjectValue, fields}
    SchemaDefinition {kind, description, directives, operationTypes:[{operation, type}]}   SchemaExtension (no description)
    ScalarTypeDefinition {kind, description, name, directives}
    ObjectTypeDefinition / InterfaceTypeDefinition {kind, description, name, interfaces, directives, fields}
    FieldDefinition {description, name, arguments, type, directives}
    InputValueDefinition {description, name, type, defaultValue|None, directives}
    UnionTypeDefinition {kind, description, name, directives, types}
    EnumTypeDefinition {kind, description, name, directives, values:[{description, name, directives}]}
    InputObjectTypeDefinition {kind, description, name, directives, fields}
    DirectiveDefinition {kind, description, name, arguments, repeatable, locations}
    *TypeExtension: same members without description.   description = StringValue node or None.

Self test:  python3 gqlref.py --selftest
"""
import re

__all__ = ["parse_executable", "parse_schema", "parse_document", "tokenize", "print_document",
           "print_executable", "print_schema", "print_value", "print_type", "build_schema", "validate",
           "block_string_value", "is_name", "GraphQLSyntaxError", "GraphQLValidationError", "POST_2018",
           "strip_raw"]

POST_2018 = dict(variable_directives=True, interface_implements=True, repeatable=True,
                 schema_description=True, variable_definition_location=True, full_unicode=True)


class GraphQLSyntaxError(Exception):
    def __init__(self, code, message, pos):
        Exception.__init__(self, "%s at offset %d [%s]" % (message, pos, code))
        self.code = code
        self.message = message
        self.pos = pos


class GraphQLValidationError(object):
    __slots__ = ("rule", "message")

    def __init__(self, rule, message):
        self.rule = rule
        self.message = message

    def __repr__(self):
        return "<%s: %s>" % (self.rule, self.message)

    __str__ = __repr__


# ---------------------------------------------------------------------------
# 2.1 Source text, 2.1.1-2.1.9 lexical grammar
# ---------------------------------------------------------------------------
_NAME_RE = re.compile(r"[_A-Za-z][_0-9A-Za-z]*\Z")
# SourceCharacter :: /[\u0009\u000A\u000D\u0020-\uFFFF]/
_BAD_SOURCE_CHAR = re.compile("[^\t\n\r -\uffff]")
_BAD_SOURCE_CHAR_FULL = re.compile("[^\t\n\r -\U0010ffff]")

_TOKEN_RE = re.compile(
    # Ignored :: UnicodeBOM WhiteSpace LineTerminator Comment Comma
    "(?P<ign>(?:[ \t\n\r,\ufeff]+|#[^\n\r]*)+)"
    r"|(?P<Name>[_A-Za-z][_0-9A-Za-z]*)"
    # Punctuator :: one of ! $ ( ) ... : = @ [ ] { | }   (& is used by ImplementsInterfaces)
    r"|(?P<punct>\.\.\.|[!$&():=@\[\]{|}])"
    # IntValue / FloatValue, with the lookahead restriction
    r"|(?P<num>-?(?:0|[1-9][0-9]*)(?P<frac>\.[0-9]+)?(?P<exp>[eE][+-]?[0-9]+)?(?![0-9A-Za-z_.]))"
    # block string: `"""` BlockStringCharacter* `"""`;  BlockStringCharacter :: SourceCharacter but not `"""` or `\"""` | `\"""`
    r'|(?P<BlockString>"""(?:[^"\\]|\\"""|\\(?!""")|"(?!""))*""")'
    r'|(?P<ubstr>""")'
    # StringValue :: `"` StringCharacter* `"`; StringCharacter :: SourceCharacter but not `"` `\` LineTerminator | \uXXXX | \ EscapedCharacter
    r'|(?P<String>"(?:[^"\\\n\r]|\\(?:["\\/bfnrt]|u[0-9A-Fa-f]{4}))*")'
    r"|(?P<bad>[\s\S])"
)

_ESCAPES = {'"': '"', "\\": "\\", "/": "/", "b": "\b", "f": "\f", "n": "\n", "r": "\r", "t": "\t"}
_ESC_RE = re.compile(r"\\(?:u([0-9A-Fa-f]{4})|(.))", re.S)
_LINE_RE = re.compile(r"\r\n|\n|\r")


def is_name(s):
    """Name :: /[_A-Za-z][_0-9A-Za-z]*/"""
    return isinstance(s, str) and _NAME_RE.match(s) is not None


def _cook_string(raw):
    """Semantic value of a quoted StringValue (2.9.4): escapes replaced.  \\uXXXX denotes a UTF-16
    code unit; a high+low surrogate pair is combined into one character."""
    if "\\" not in raw:
        return raw

    def rep(m):
        if m.group(1) is not None:
            return chr(int(m.group(1), 16))
        return _ESCAPES[m.group(2)]
    s = _ESC_RE.sub(rep, raw)
    if any(0xD800 <= ord(c) <= 0xDFFF for c in s):
        out, i = [], 0
        while i < len(s):
            c = ord(s[i])
            if 0xD800 <= c <= 0xDBFF and i + 1 < len(s) and 0xDC00 <= ord(s[i + 1]) <= 0xDFFF:
                out.append(chr(0x10000 + ((c - 0xD800) << 10) + (ord(s[i + 1]) - 0xDC00)))
                i += 2
            else:
                out.append(s[i])
                i += 1
        s = "".join(out)
    return s


def block_string_value(raw_value):
    """BlockStringValue(rawValue), spec 2.9.4.  raw_value: characters between the `\"\"\"`s with
    `\\\"\"\"` already replaced by `\"\"\"`."""
    lines = _LINE_RE.split(raw_value)                      # 1
    common = None                                          # 2
    for line in lines[1:]:                                 # 3 (first line skipped)
        length = len(line)
        indent = length - len(line.lstrip(" \t"))
        if indent < length:
            if common is None or indent < common:
                common = indent
    if common:                                             # 4
        lines = [lines[0]] + [l[common:] for l in lines[1:]]
    while lines and not lines[0].strip(" \t"):             # 5
        lines.pop(0)
    while lines and not lines[-1].strip(" \t"):            # 6
        lines.pop()
    return "\n".join(lines)                                # 7-9


def _lex_error(text, pos, m):
    g = m.lastgroup
    ch = text[pos]
    if g == "ubstr":
        return GraphQLSyntaxError("lex:unterminated-block-string", "unterminated block string", pos)
    if ch == '"':
        # find out why the string did not lex
        i = pos + 1
        n = len(text)
        while i < n:
            c = text[i]
            if c == '"':
                break
            if c in "\n\r":
                return GraphQLSyntaxError("lex:unterminated-string", "unterminated string", pos)
            if c == "\\":
                if i + 1 < n and text[i + 1] == "u":
                    if not re.match(r"[0-9A-Fa-f]{4}", text[i + 2:i + 6]):
                        return GraphQLSyntaxError("lex:bad-unicode-escape", "invalid \\u escape", i)
                    i += 6
                    continue
                if i + 1 < n and text[i + 1] in _ESCAPES:
                    i += 2
                    continue
                return GraphQLSyntaxError("lex:bad-escape", "invalid character escape", i)
            i += 1
        return GraphQLSyntaxError("lex:unterminated-string", "unterminated string", pos)
    if ch in "-0123456789":
        return GraphQLSyntaxError("lex:invalid-number", "invalid number", pos)
    if ch == ".":
        return GraphQLSyntaxError("lex:unexpected-dot", "unexpected '.'", pos)
    return GraphQLSyntaxError("lex:unexpected-character", "unexpected character %r" % ch, pos)


def _lex(text, full_unicode=False):
    """-> kinds, vals, poss (parallel lists, EOF terminated)."""
    bad = (_BAD_SOURCE_CHAR_FULL if full_unicode else _BAD_SOURCE_CHAR).search(text)
    if bad is not None:
        raise GraphQLSyntaxError("lex:not-a-source-character", "character U+%04X is not a SourceCharacter"
                                 % ord(bad.group()), bad.start())
    kinds, vals, poss = [], [], []
    ak, av, ap = kinds.append, vals.append, poss.append
    for m in _TOKEN_RE.finditer(text):
        g = m.lastgroup
        if g == "ign":
            continue
        if g == "Name":
            ak("Name")
        elif g == "punct":
            ak(m.group())
        elif g == "num":
            ak("Int" if m.group("frac") is None and m.group("exp") is None else "Float")
        elif g == "String" or g == "BlockString":
            ak(g)
        else:
            raise _lex_error(text, m.start(), m)
        av(m.group())
        ap(m.start())
    ak("EOF")
    av("")
    ap(len(text))
    return kinds, vals, poss


def tokenize(text, full_unicode=False):
    k, v, p = _lex(text, full_unicode)
    return list(zip(k, v, p))


# ---------------------------------------------------------------------------
# 2.2-2.12, 3 syntactic grammar
# ---------------------------------------------------------------------------
_EXEC_LOCATIONS = ("QUERY", "MUTATION", "SUBSCRIPTION", "FIELD", "FRAGMENT_DEFINITION", "FRAGMENT_SPREAD",
                   "INLINE_FRAGMENT")
_TS_LOCATIONS = ("SCHEMA", "SCALAR", "OBJECT", "FIELD_DEFINITION", "ARGUMENT_DEFINITION", "INTERFACE", "UNION",
                 "ENUM", "ENUM_VALUE", "INPUT_OBJECT", "INPUT_FIELD_DEFINITION")
_LOCATIONS = frozenset(_EXEC_LOCATIONS + _TS_LOCATIONS)
_TS_KEYWORDS = frozenset(("schema", "scalar", "type", "interface", "union", "enum", "input", "directive", "extend"))
_EXEC_KEYWORDS = frozenset(("query", "mutation", "subscription", "fragment"))


class _Parser(object):
    def __init__(self, text, dialect):
        self.d_vardir = dialect.pop("variable_directives", False)
        self.d_iface = dialect.pop("interface_implements", False)
        self.d_repeatable = dialect.pop("repeatable", False)
        self.d_schemadesc = dialect.pop("schema_description", False)
        self.d_varloc = dialect.pop("variable_definition_location", False)
        full = dialect.pop("full_unicode", False)
        if dialect:
            raise TypeError("unknown dialect option(s): %s" % sorted(dialect))
        self.kinds, self.vals, self.poss = _lex(text, full)
        self.i = 0

    # -- helpers
    def err(self, context, expected):
        k = self.kinds[self.i]
        return GraphQLSyntaxError("%s:expected-%s:found-%s" % (context, expected, k),
                                  "expected %s in %s, found %s %r" % (expected, context, k, self.vals[self.i][:20]),
                                  self.poss[self.i])

    def expect(self, kind, context):
        if self.kinds[self.i] != kind:
            raise self.err(context, kind)
        self.i += 1

    def name(self, context):
        i = self.i
        if self.kinds[i] != "Name":
            raise self.err(context, "Name")
        self.i = i + 1
        return self.vals[i]

    def keyword(self, kw, context):
        i = self.i
        if self.kinds[i] != "Name" or self.vals[i] != kw:
            raise self.err(context, kw)
        self.i = i + 1

    def peek_kw(self, kw):
        return self.kinds[self.i] == "Name" and self.vals[self.i] == kw

    # -- 2.2 Document : Definition+
    def document(self, allow_exec, allow_ts):
        defs = []
        while True:
            k = self.kinds[self.i]
            v = self.vals[self.i]
            if k == "{" or (k == "Name" and v in _EXEC_KEYWORDS):
                if not allow_exec:
                    raise self.err("Document", "TypeSystemDefinition")
                defs.append(self.executable_definition())
            elif k == "String" or k == "BlockString" or (k == "Name" and v in _TS_KEYWORDS):
                if not allow_ts:
                    raise self.err("Document", "ExecutableDefinition")
                defs.append(self.type_system_definition())
            elif k == "EOF" and defs:
                break
            else:
                raise self.err("Document", "Definition")
        return {"kind": "Document", "definitions": defs}

    # -- 2.3 operations, 2.8 fragments
    def executable_definition(self):
        if self.kinds[self.i] == "{":
            return {"kind": "OperationDefinition", "operation": "query", "name": None,
                    "variableDefinitions": [], "directives": [], "selectionSet": self.selection_set()}
        v = self.vals[self.i]
        self.i += 1
        if v == "fragment":
            # FragmentName : Name but not `on`
            if self.peek_kw("on"):
                raise GraphQLSyntaxError("FragmentDefinition:name-is-on", "fragment name must not be `on`",
                                         self.poss[self.i])
            name = self.name("FragmentDefinition")
            self.keyword("on", "TypeCondition")
            tc = self.name("TypeCondition")
            return {"kind": "FragmentDefinition", "name": name, "typeCondition": tc,
                    "directives": self.directives(False), "selectionSet": self.selection_set()}
        name = None
        if self.kinds[self.i] == "Name":
            name = self.vals[self.i]
            self.i += 1
        vds = []
        if self.kinds[self.i] == "(":
            self.i += 1
            while True:
                vds.append(self.variable_definition())
                if self.kinds[self.i] == ")":
                    self.i += 1
                    break
        return {"kind": "OperationDefinition", "operation": v, "name": name, "variableDefinitions": vds,
                "directives": self.directives(False), "selectionSet": self.selection_set()}

    # VariableDefinition : Variable : Type DefaultValue?
    def variable_definition(self):
        self.expect("$", "VariableDefinition")
        var = self.name("Variable")
        self.expect(":", "VariableDefinition")
        t = self.type_ref()
        dv = None
        if self.kinds[self.i] == "=":
            self.i += 1
            dv = self.value(True)
        dirs = []
        if self.kinds[self.i] == "@":
            if not self.d_vardir:
                raise self.err("VariableDefinition", "Variable-or-)")
            dirs = self.directives(True)
        return {"kind": "VariableDefinition", "variable": var, "type": t, "defaultValue": dv, "directives": dirs}

    # SelectionSet : { Selection+ }
    def selection_set(self):
        self.expect("{", "SelectionSet")
        sels = []
        kinds, vals = self.kinds, self.vals
        while True:
            k = kinds[self.i]
            if k == "Name":
                # Field : Alias? Name Arguments? Directives? SelectionSet?
                name = vals[self.i]
                self.i += 1
                alias = None
                if kinds[self.i] == ":":
                    self.i += 1
                    alias = name
                    name = self.name("Field")
                args = self.arguments(False) if kinds[self.i] == "(" else []
                dirs = self.directives(False) if kinds[self.i] == "@" else []
                ss = self.selection_set() if kinds[self.i] == "{" else None
                sels.append({"kind": "Field", "alias": alias, "name": name, "arguments": args,
                             "directives": dirs, "selectionSet": ss})
            elif k == "...":
                self.i += 1
                if kinds[self.i] == "Name" and vals[self.i] != "on":
                    name = vals[self.i]
                    self.i += 1
                    sels.append({"kind": "FragmentSpread", "name": name, "directives": self.directives(False)})
                else:
                    tc = None
                    if kinds[self.i] == "Name":     # `on`
                        self.i += 1
                        tc = self.name("TypeCondition")
                    dirs = self.directives(False)
                    sels.append({"kind": "InlineFragment", "typeCondition": tc, "directives": dirs,
                                 "selectionSet": self.selection_set()})
            elif k == "}" and sels:
                self.i += 1
                return sels
            else:
                raise self.err("SelectionSet", "Selection")

    # Arguments[Const] : ( Argument[?Const]+ )
    def arguments(self, const):
        self.i += 1  # (
        args = []
        while True:
            name = self.name("Arguments")
            self.expect(":", "Argument")
            args.append({"name": name, "value": self.value(const)})
            if self.kinds[self.i] == ")":
                self.i += 1
                return args

    # Directives[Const] : Directive[?Const]+ ; Directive : @ Name Arguments?
    def directives(self, const):
        dirs = []
        while self.kinds[self.i] == "@":
            self.i += 1
            name = self.name("Directive")
            args = self.arguments(const) if self.kinds[self.i] == "(" else []
            dirs.append({"name": name, "arguments": args})
        return dirs

    # 2.9 Value[Const]
    def value(self, const):
        i = self.i
        k = self.kinds[i]
        v = self.vals[i]
        self.i = i + 1
        if k == "Int":
            return {"kind": "IntValue", "value": v}
        if k == "Float":
            return {"kind": "FloatValue", "value": v}
        if k == "String":
            raw = v[1:-1]
            return {"kind": "StringValue", "value": _cook_string(raw), "block": False, "raw": raw}
        if k == "BlockString":
            raw = v[3:-3]
            return {"kind": "StringValue", "value": block_string_value(raw.replace('\\"""', '"""')),
                    "block": True, "raw": raw}
        if k == "Name":
            if v == "true":
                return {"kind": "BooleanValue", "value": True}
            if v == "false":
                return {"kind": "BooleanValue", "value": False}
            if v == "null":
                return {"kind": "NullValue"}
            return {"kind": "EnumValue", "value": v}
        if k == "$":
            if const:
                self.i = i
                raise self.err("Value[Const]", "ConstValue")
            return {"kind": "Variable", "name": self.name("Variable")}
        if k == "[":
            vals = []
            while self.kinds[self.i] != "]":
                vals.append(self.value(const))
            self.i += 1
            return {"kind": "ListValue", "values": vals}
        if k == "{":
            fields = []
            while self.kinds[self.i] != "}":
                name = self.name("ObjectValue")
                self.expect(":", "ObjectField")
                fields.append({"name": name, "value": self.value(const)})
            self.i += 1
            return {"kind": "ObjectValue", "fields": fields}
        self.i = i
        raise self.err("Value", "Value")

    # 2.11 Type
    def type_ref(self):
        if self.kinds[self.i] == "[":
            self.i += 1
            inner = self.type_ref()
            self.expect("]", "ListType")
            t = {"kind": "ListType", "type": inner}
        else:
            t = {"kind": "NamedType", "name": self.name("Type")}
        if self.kinds[self.i] == "!":
            self.i += 1
            return {"kind": "NonNullType", "type": t}
        return t

    # -- 3 type system
    def description(self):
        k = self.kinds[self.i]
        if k == "String" or k == "BlockString":
            return self.value(True)
        return None

    def type_system_definition(self):
        start = self.i
        desc = self.description()
        if self.kinds[self.i] != "Name":
            raise self.err("TypeSystemDefinition", "keyword")
        kw = self.vals[self.i]
        if kw == "extend":
            if desc is not None:
                raise GraphQLSyntaxError("TypeSystemExtension:description-before-extend",
                                         "an extension cannot have a description", self.poss[start])
            self.i += 1
            return self.type_system_extension()
        if kw not in _TS_KEYWORDS:
            raise self.err("TypeSystemDefinition", "keyword")
        self.i += 1
        if kw == "schema":
            if desc is not None and not self.d_schemadesc:
                raise GraphQLSyntaxError("SchemaDefinition:description", "schema definition cannot have a "
                                         "description (June 2018)", self.poss[start])
            dirs = self.directives(True)
            return {"kind": "SchemaDefinition", "description": desc, "directives": dirs,
                    "operationTypes": self.operation_types()}
        if kw == "directive":
            self.expect("@", "DirectiveDefinition")
            name = self.name("DirectiveDefinition")
            args = self.input_values("(", ")", "ArgumentsDefinition") if self.kinds[self.i] == "(" else []
            rep = False
            if self.d_repeatable and self.peek_kw("repeatable"):
                self.i += 1
                rep = True
            self.keyword("on", "DirectiveDefinition")
            if self.kinds[self.i] == "|":
                self.i += 1
            locs = []
            while True:
                loc = self.name("DirectiveLocations")
                if loc not in _LOCATIONS and not (self.d_varloc and loc == "VARIABLE_DEFINITION"):
                    self.i -= 1
                    raise GraphQLSyntaxError("DirectiveLocations:unknown-location",
                                             "%s is not a directive location" % loc, self.poss[self.i])
                locs.append(loc)
                if self.kinds[self.i] != "|":
                    break
                self.i += 1
            return {"kind": "DirectiveDefinition", "description": desc, "name": name, "arguments": args,
                    "repeatable": rep, "locations": locs}
        name = self.name("TypeDefinition")
        if kw == "scalar":
            return {"kind": "ScalarTypeDefinition", "description": desc, "name": name,
                    "directives": self.directives(True)}
        if kw == "type" or kw == "interface":
            ifaces = self.implements() if (kw == "type" or self.d_iface) else []
            dirs = self.directives(True)
            fields = self.fields_definition() if self.kinds[self.i] == "{" else []
            return {"kind": "ObjectTypeDefinition" if kw == "type" else "InterfaceTypeDefinition",
                    "description": desc, "name": name, "interfaces": ifaces, "directives": dirs, "fields": fields}
        if kw == "union":
            dirs = self.directives(True)
            return {"kind": "UnionTypeDefinition", "description": desc, "name": name, "directives": dirs,
                    "types": self.union_members()}
        if kw == "enum":
            dirs = self.directives(True)
            vals = self.enum_values() if self.kinds[self.i] == "{" else []
            return {"kind": "EnumTypeDefinition", "description": desc, "name": name, "directives": dirs,
                    "values": vals}
        # input
        dirs = self.directives(True)
        fields = self.input_values("{", "}", "InputFieldsDefinition") if self.kinds[self.i] == "{" else []
        return {"kind": "InputObjectTypeDefinition", "description": desc, "name": name, "directives": dirs,
                "fields": fields}

    def type_system_extension(self):
        if self.kinds[self.i] != "Name" or self.vals[self.i] not in _TS_KEYWORDS \
                or self.vals[self.i] in ("extend", "directive"):
            raise self.err("TypeSystemExtension", "keyword")
        kw = self.vals[self.i]
        self.i += 1

        def nothing():
            return GraphQLSyntaxError("TypeSystemExtension:extends-nothing",
                                      "extension of %s adds nothing" % kw, self.poss[self.i])
        if kw == "schema":
            # extend schema Directives[Const]? { OperationTypeDefinition+ } | extend schema Directives[Const]
            dirs = self.directives(True)
            ops = self.operation_types() if self.kinds[self.i] == "{" else []
            if not dirs and not ops:
                raise nothing()
            return {"kind": "SchemaExtension", "directives": dirs, "operationTypes": ops}
        name = self.name("TypeExtension")
        if kw == "scalar":
            dirs = self.directives(True)
            if not dirs:
                raise nothing()
            return {"kind": "ScalarTypeExtension", "name": name, "directives": dirs}
        if kw == "type" or kw == "interface":
            ifaces = self.implements() if (kw == "type" or self.d_iface) else []
            dirs = self.directives(True)
            fields = self.fields_definition() if self.kinds[self.i] == "{" else []
            if not ifaces and not dirs and not fields:
                raise nothing()
            return {"kind": "ObjectTypeExtension" if kw == "type" else "InterfaceTypeExtension", "name": name,
                    "interfaces": ifaces, "directives": dirs, "fields": fields}
        if kw == "union":
            dirs = self.directives(True)
            types = self.union_members()
            if not dirs and not types:
                raise nothing()
            return {"kind": "UnionTypeExtension", "name": name, "directives": dirs, "types": types}
        if kw == "enum":
            dirs = self.directives(True)
            vals = self.enum_values() if self.kinds[self.i] == "{" else []
            if not dirs and not vals:
                raise nothing()
            return {"kind": "EnumTypeExtension", "name": name, "directives": dirs, "values": vals}
        dirs = self.directives(True)
        fields = self.input_values("{", "}", "InputFieldsDefinition") if self.kinds[self.i] == "{" else []
        if not dirs and not fields:
            raise nothing()
        return {"kind": "InputObjectTypeExtension", "name": name, "directives": dirs, "fields": fields}

    # { OperationTypeDefinition+ } ; OperationTypeDefinition : OperationType : NamedType
    def operation_types(self):
        self.expect("{", "SchemaDefinition")
        ops = []
        while True:
            i = self.i
            if self.kinds[i] != "Name" or self.vals[i] not in ("query", "mutation", "subscription"):
                raise self.err("OperationTypeDefinition", "OperationType")
            self.i += 1
            self.expect(":", "OperationTypeDefinition")
            ops.append({"operation": self.vals[i], "type": self.name("OperationTypeDefinition")})
            if self.kinds[self.i] == "}":
                self.i += 1
                return ops

    # ImplementsInterfaces : implements `&`? NamedType | ImplementsInterfaces & NamedType
    def implements(self):
        if not self.peek_kw("implements"):
            return []
        self.i += 1
        if self.kinds[self.i] == "&":
            self.i += 1
        out = [self.name("ImplementsInterfaces")]
        while self.kinds[self.i] == "&":
            self.i += 1
            out.append(self.name("ImplementsInterfaces"))
        return out

    # FieldsDefinition : { FieldDefinition+ } ; FieldDefinition : Description? Name ArgumentsDefinition? : Type Directives[Const]?
    def fields_definition(self):
        self.i += 1
        fields = []
        while True:
            desc = self.description()
            name = self.name("FieldDefinition")
            args = self.input_values("(", ")", "ArgumentsDefinition") if self.kinds[self.i] == "(" else []
            self.expect(":", "FieldDefinition")
            t = self.type_ref()
            fields.append({"description": desc, "name": name, "arguments": args, "type": t,
                           "directives": self.directives(True)})
            if self.kinds[self.i] == "}":
                self.i += 1
                return fields

    # ( InputValueDefinition+ ) / { InputValueDefinition+ } ; InputValueDefinition : Description? Name : Type DefaultValue? Directives[Const]?
    def input_values(self, open_, close, context):
        self.i += 1
        out = []
        while True:
            desc = self.description()
            name = self.name(context)
            self.expect(":", "InputValueDefinition")
            t = self.type_ref()
            dv = None
            if self.kinds[self.i] == "=":
                self.i += 1
                dv = self.value(True)
            out.append({"description": desc, "name": name, "type": t, "defaultValue": dv,
                        "directives": self.directives(True)})
            if self.kinds[self.i] == close:
                self.i += 1
                return out

    # UnionMemberTypes : = `|`? NamedType | UnionMemberTypes | NamedType
    def union_members(self):
        if self.kinds[self.i] != "=":
            return []
        self.i += 1
        if self.kinds[self.i] == "|":
            self.i += 1
        out = [self.name("UnionMemberTypes")]
        while self.kinds[self.i] == "|":
            self.i += 1
            out.append(self.name("UnionMemberTypes"))
        return out

    # EnumValuesDefinition : { EnumValueDefinition+ } ; EnumValueDefinition : Description? EnumValue Directives[Const]?
    def enum_values(self):
        self.i += 1
        out = []
        while True:
            desc = self.description()
            i = self.i
            name = self.name("EnumValueDefinition")
            if name in ("true", "false", "null"):     # EnumValue : Name but not true false null
                raise GraphQLSyntaxError("EnumValueDefinition:reserved-name", "enum value cannot be %s" % name,
                                         self.poss[i])
            out.append({"description": desc, "name": name, "directives": self.directives(True)})
            if self.kinds[self.i] == "}":
                self.i += 1
                return out


def parse_document(text, **dialect):
    return _Parser(text, dialect).document(True, True)


def parse_executable(text, **dialect):
    return _Parser(text, dialect).document(True, False)


def parse_schema(text, **dialect):
    return _Parser(text, dialect).document(False, True)


def strip_raw(node):
    """Copy of an AST without the `raw` members of StringValue nodes."""
    if isinstance(node, dict):
        return {k: strip_raw(v) for k, v in node.items() if k != "raw"}
    if isinstance(node, list):
        return [strip_raw(v) for v in node]
    return node


# ---------------------------------------------------------------------------
# printer (canonical, compact; parse(print(x)) == x up to `raw`, and up to `block` when a
# block string value cannot be written as a block string)
# ---------------------------------------------------------------------------
_PRINT_ESC = {'"': '\\"', "\\": "\\\\", "\b": "\\b", "\f": "\\f", "\n": "\\n", "\r": "\\r", "\t": "\\t"}
_NEEDS_ESC = re.compile('["\\\\\x00-\x1f\x7f\ud800-\udfff]|[^\x00-\uffff]')
_BLOCK_TOKEN = re.compile(r'"""(?:[^"\\]|\\"""|\\(?!""")|"(?!""))*"""\Z')


def _esc_char(m):
    c = m.group()
    if c in _PRINT_ESC:
        return _PRINT_ESC[c]
    o = ord(c)
    if o > 0xFFFF:
        o -= 0x10000
        return "\\u%04X\\u%04X" % (0xD800 + (o >> 10), 0xDC00 + (o & 0x3FF))
    return "\\u%04X" % o


def print_string(value, block=False):
    if block and not _BAD_SOURCE_CHAR.search(value):
        esc = value.replace('"""', '\\"""')
        for cand in ('"""\n' + esc + '\n"""', '"""' + esc + '"""'):
            if _BLOCK_TOKEN.match(cand) and \
                    block_string_value(cand[3:-3].replace('\\"""', '"""')) == value:
                return cand
    return '"' + _NEEDS_ESC.sub(_esc_char, value) + '"'


def print_value(v):
    k = v["kind"]
    if k == "IntValue" or k == "FloatValue" or k == "EnumValue":
        return v["value"]
    if k == "StringValue":
        return print_string(v["value"], v.get("block", False))
    if k == "BooleanValue":
        return "true" if v["value"] else "false"
    if k == "NullValue":
        return "null"
    if k == "Variable":
        return "$" + v["name"]
    if k == "ListValue":
        return "[" + ", ".join(print_value(x) for x in v["values"]) + "]"
    if k == "ObjectValue":
        return "{" + ", ".join(f["name"] + ": " + print_value(f["value"]) for f in v["fields"]) + "}"
    raise ValueError("not a value node: %r" % (k,))


def print_type(t):
    k = t["kind"]
    if k == "NamedType":
        return t["name"]
    if k == "ListType":
        return "[" + print_type(t["type"]) + "]"
    return print_type(t["type"]) + "!"


def _p_args(args):
    if not args:
        return ""
    return "(" + ", ".join(a["name"] + ": " + print_value(a["value"]) for a in args) + ")"


def _p_dirs(dirs):
    return "".join(" @" + d["name"] + _p_args(d["arguments"]) for d in dirs)


def _p_selset(sels, ind):
    pad = "  " * (ind + 1)
    out = ["{"]
    for s in sels:
        k = s["kind"]
        if k == "Field":
            line = (s["alias"] + ": " if s["alias"] is not None else "") + s["name"] + _p_args(s["arguments"]) \
                + _p_dirs(s["directives"])
            if s["selectionSet"] is not None:
                line += " " + _p_selset(s["selectionSet"], ind + 1)
        elif k == "FragmentSpread":
            line = "..." + s["name"] + _p_dirs(s["directives"])
        else:
            line = "..." + (" on " + s["typeCondition"] if s["typeCondition"] is not None else "") \
                + _p_dirs(s["directives"]) + " " + _p_selset(s["selectionSet"], ind + 1)
        out.append(pad + line)
    out.append("  " * ind + "}")
    return "\n".join(out)


def _p_desc(d, pad=""):
    if d is None:
        return ""
    return pad + print_string(d["value"], d.get("block", False)) + "\n"


def _p_input_value(a):
    s = a["name"] + ": " + print_type(a["type"])
    if a["defaultValue"] is not None:
        s += " = " + print_value(a["defaultValue"])
    return s + _p_dirs(a["directives"])


def _p_argdefs(args):
    if not args:
        return ""
    if all(a["description"] is None for a in args):
        return "(" + ", ".join(_p_input_value(a) for a in args) + ")"
    return "(\n" + "".join(_p_desc(a["description"], "    ") + "    " + _p_input_value(a) + "\n" for a in args) + "  )"


def _p_definition(d):
    k = d["kind"]
    if k == "OperationDefinition":
        anonymous = (d["operation"] == "query" and d["name"] is None and not d["variableDefinitions"]
                     and not d["directives"])
        head = ""
        if not anonymous:
            head = d["operation"] + (" " + d["name"] if d["name"] is not None else "")
            if d["variableDefinitions"]:
                head += "(" + ", ".join(
                    "$" + v["variable"] + ": " + print_type(v["type"])
                    + (" = " + print_value(v["defaultValue"]) if v["defaultValue"] is not None else "")
                    + _p_dirs(v["directives"]) for v in d["variableDefinitions"]) + ")"
            head += _p_dirs(d["directives"]) + " "
        return head + _p_selset(d["selectionSet"], 0)
    if k == "FragmentDefinition":
        return "fragment " + d["name"] + " on " + d["typeCondition"] + _p_dirs(d["directives"]) + " " \
            + _p_selset(d["selectionSet"], 0)
    ext = k.endswith("Extension")
    head = "" if ext else _p_desc(d.get("description"))
    if ext:
        head += "extend "
    if k in ("SchemaDefinition", "SchemaExtension"):
        s = head + "schema" + _p_dirs(d["directives"])
        if d["operationTypes"]:
            s += " {\n" + "".join("  %s: %s\n" % (o["operation"], o["type"]) for o in d["operationTypes"]) + "}"
        return s
    if k == "DirectiveDefinition":
        return head + "directive @" + d["name"] + _p_argdefs(d["arguments"]) \
            + (" repeatable" if d.get("repeatable") else "") + " on " + " | ".join(d["locations"])
    name = d["name"]
    if k.startswith("Scalar"):
        return head + "scalar " + name + _p_dirs(d["directives"])
    if k.startswith("Object") or k.startswith("Interface"):
        s = head + ("type " if k.startswith("Object") else "interface ") + name
        if d["interfaces"]:
            s += " implements " + " & ".join(d["interfaces"])
        s += _p_dirs(d["directives"])
        if d["fields"]:
            s += " {\n" + "".join(
                _p_desc(f["description"], "  ") + "  " + f["name"] + _p_argdefs(f["arguments"]) + ": "
                + print_type(f["type"]) + _p_dirs(f["directives"]) + "\n" for f in d["fields"]) + "}"
        return s
    if k.startswith("Union"):
        s = head + "union " + name + _p_dirs(d["directives"])
        if d["types"]:
            s += " = " + " | ".join(d["types"])
        return s
    if k.startswith("Enum"):
        s = head + "enum " + name + _p_dirs(d["directives"])
        if d["values"]:
            s += " {\n" + "".join(_p_desc(v["description"], "  ") + "  " + v["name"] + _p_dirs(v["directives"])
                                  + "\n" for v in d["values"]) + "}"
        return s
    if k.startswith("InputObject"):
        s = head + "input " + name + _p_dirs(d["directives"])
        if d["fields"]:
            s += " {\n" + "".join(_p_desc(f["description"], "  ") + "  " + _p_input_value(f) + "\n"
                                  for f in d["fields"]) + "}"
        return s
    raise ValueError("not a definition node: %r" % (k,))


def print_document(ast):
    """Any Document AST -> text."""
    return "\n\n".join(_p_definition(d) for d in ast["definitions"]) + "\n"


print_executable = print_document
print_schema = print_document


# ---------------------------------------------------------------------------
# 3 type system: schema model built from type-system documents
# ---------------------------------------------------------------------------
_INTROSPECTION_SDL = """
type __Schema { types: [__Type!]! queryType: __Type! mutationType: __Type subscriptionType: __Type directives: [__Directive!]! }
type __Type { kind: __TypeKind! name: String description: String fields(includeDeprecated: Boolean = false): [__Field!]
  interfaces: [__Type!] possibleTypes: [__Type!] enumValues(includeDeprecated: Boolean = false): [__EnumValue!]
  inputFields: [__InputValue!] ofType: __Type }
type __Field { name: String! description: String args: [__InputValue!]! type: __Type! isDeprecated: Boolean! deprecationReason: String }
type __InputValue { name: String! description: String type: __Type! defaultValue: String }
type __EnumValue { name: String! description: String isDeprecated: Boolean! deprecationReason: String }
enum __TypeKind { SCALAR OBJECT INTERFACE UNION ENUM INPUT_OBJECT LIST NON_NULL }
type __Directive { name: String! description: String locations: [__DirectiveLocation!]! args: [__InputValue!]! }
enum __DirectiveLocation { QUERY MUTATION SUBSCRIPTION FIELD FRAGMENT_DEFINITION FRAGMENT_SPREAD INLINE_FRAGMENT SCHEMA SCALAR
  OBJECT FIELD_DEFINITION ARGUMENT_DEFINITION INTERFACE UNION ENUM ENUM_VALUE INPUT_OBJECT INPUT_FIELD_DEFINITION }
directive @skip(if: Boolean!) on FIELD | FRAGMENT_SPREAD | INLINE_FRAGMENT
directive @include(if: Boolean!) on FIELD | FRAGMENT_SPREAD | INLINE_FRAGMENT
directive @deprecated(reason: String = "No longer supported") on FIELD_DEFINITION | ENUM_VALUE
scalar Int scalar Float scalar String scalar Boolean scalar ID
"""
_TYPENAME_FIELD = {"name": "__typename", "type": {"kind": "NonNullType", "type": {"kind": "NamedType", "name": "String"}},
                   "args": {}}
_SCHEMA_FIELD = {"name": "__schema", "type": {"kind": "NonNullType", "type": {"kind": "NamedType", "name": "__Schema"}},
                 "args": {}}
_TYPE_FIELD = {"name": "__type", "type": {"kind": "NamedType", "name": "__Type"},
               "args": {"name": {"name": "name", "type": {"kind": "NonNullType",
                                                          "type": {"kind": "NamedType", "name": "String"}},
                                 "defaultValue": None}}}
_DEF_KIND = {"Scalar": "SCALAR", "Object": "OBJECT", "Interface": "INTERFACE", "Union": "UNION", "Enum": "ENUM",
             "InputObject": "INPUT_OBJECT"}


def _args_map(arg_defs, errors, where):
    out = {}
    for a in arg_defs:
        if a["name"] in out:
            errors.append("duplicate argument %s on %s" % (a["name"], where))
        out[a["name"]] = {"name": a["name"], "type": a["type"], "defaultValue": a["defaultValue"]}
    return out


class Schema(object):
    """types: name -> {kind, name, fields{name->{name,type,args{name->{name,type,defaultValue}}}}, interfaces[],
    types[] (union members), values (enum value names), inputFields{name->{name,type,defaultValue}}};
    directives: name -> {name, args, locations}; query_type / mutation_type / subscription_type: names or None;
    errors: problems found while building (duplicate definitions, extension of unknown type ...)."""

    def __init__(self):
        self.types = {}
        self.directives = {}
        self.query_type = self.mutation_type = self.subscription_type = None
        self.errors = []
        self._possible = {}

    def possible_types(self, name):
        """GetPossibleTypes(type) (5.5.2.3): object -> itself, interface -> implementors, union -> members."""
        p = self._possible.get(name)
        if p is None:
            t = self.types.get(name)
            if t is None:
                p = frozenset()
            elif t["kind"] == "OBJECT":
                p = frozenset((name,))
            elif t["kind"] == "UNION":
                p = frozenset(t["types"])
            elif t["kind"] == "INTERFACE":
                p = frozenset(n for n, o in self.types.items() if o["kind"] == "OBJECT" and name in o["interfaces"])
            else:
                p = frozenset()
            self._possible[name] = p
        return p

    def root(self, operation):
        return {"query": self.query_type, "mutation": self.mutation_type,
                "subscription": self.subscription_type}[operation]

    def field(self, parent, name):
        """field definition of `name` selected on type named `parent` (incl. meta fields), or None."""
        t = self.types.get(parent)
        if t is None:
            return None
        k = t["kind"]
        if k not in ("OBJECT", "INTERFACE", "UNION"):
            return None
        if name == "__typename":
            return _TYPENAME_FIELD
        if k == "UNION":
            return None
        if parent == self.query_type:
            if name == "__schema":
                return _SCHEMA_FIELD
            if name == "__type":
                return _TYPE_FIELD
        return t["fields"].get(name)


_BUILTIN_CACHE = []


def build_schema(ast_list):
    """ast_list: one type-system Document AST or a list of them (base schema first, then extension
    documents).  Built-in scalars, directives and introspection types are added."""
    if isinstance(ast_list, dict):
        ast_list = [ast_list]
    if not _BUILTIN_CACHE:
        _BUILTIN_CACHE.append(parse_schema(_INTROSPECTION_SDL))
    s = Schema()
    errors = s.errors
    defs = [d for doc in [_BUILTIN_CACHE[0]] + list(ast_list) for d in doc["definitions"]]
    schema_def_seen = False
    roots = {}
    for pass_ in ("define", "extend"):
        for d in defs:
            k = d["kind"]
            ext = k.endswith("Extension")
            if ext != (pass_ == "extend"):
                continue
            if k == "SchemaDefinition" or k == "SchemaExtension":
                if k == "SchemaDefinition":
                    if schema_def_seen:
                        errors.append("more than one schema definition")
                    schema_def_seen = True
                for o in d["operationTypes"]:
                    if o["operation"] in roots:
                        errors.append("root operation type %s defined twice" % o["operation"])
                    roots[o["operation"]] = o["type"]
                continue
            if k == "DirectiveDefinition":
                if d["name"] in s.directives:
                    errors.append("duplicate directive @%s" % d["name"])
                s.directives[d["name"]] = {"name": d["name"], "locations": list(d["locations"]),
                                           "args": _args_map(d["arguments"], errors, "@" + d["name"])}
                continue
            if k in ("OperationDefinition", "FragmentDefinition"):
                errors.append("executable definition in a schema document")
                continue
            base = k[:-len("TypeExtension" if ext else "TypeDefinition")]
            tk = _DEF_KIND[base]
            name = d["name"]
            if not ext:
                if name in s.types:
                    errors.append("duplicate type %s" % name)
                t = s.types[name] = {"kind": tk, "name": name, "fields": {}, "interfaces": [], "types": [],
                                     "values": set(), "inputFields": {}}
            else:
                t = s.types.get(name)
                if t is None:
                    errors.append("extension of undefined type %s" % name)
                    continue
                if t["kind"] != tk:
                    errors.append("extension of %s with the wrong kind" % name)
                    continue
            for f in d.get("fields", ()):
                if tk == "INPUT_OBJECT":
                    if f["name"] in t["inputFields"]:
                        errors.append("duplicate input field %s.%s" % (name, f["name"]))
                    t["inputFields"][f["name"]] = {"name": f["name"], "type": f["type"],
                                                   "defaultValue": f["defaultValue"]}
                else:
                    if f["name"] in t["fields"]:
                        errors.append("duplicate field %s.%s" % (name, f["name"]))
                    t["fields"][f["name"]] = {"name": f["name"], "type": f["type"],
                                              "args": _args_map(f["arguments"], errors, name + "." + f["name"])}
            t["interfaces"].extend(d.get("interfaces", ()))
            t["types"].extend(d.get("types", ()))
            for v in d.get("values", ()):
                if v["name"] in t["values"]:
                    errors.append("duplicate enum value %s.%s" % (name, v["name"]))
                t["values"].add(v["name"])
    if schema_def_seen or roots:
        s.query_type = roots.get("query")
        s.mutation_type = roots.get("mutation")
        s.subscription_type = roots.get("subscription")
    else:   # 3.2.1: default root operation type names
        for op, n in (("query", "Query"), ("mutation", "Mutation"), ("subscription", "Subscription")):
            if n in s.types and s.types[n]["kind"] == "OBJECT":
                setattr(s, op + "_type", n)
    for op in ("query", "mutation", "subscription"):
        n = s.root(op)
        if n is not None and (n not in s.types or s.types[n]["kind"] != "OBJECT"):
            errors.append("root %s type %s is not a defined object type" % (op, n))
    if s.query_type is None:
        errors.append("no query root operation type")
    return s


# ---------------------------------------------------------------------------
# 5 validation
# ---------------------------------------------------------------------------
def _named(t):
    while t["kind"] != "NamedType":
        t = t["type"]
    return t["name"]


def _types_compatible(var_t, loc_t):
    """AreTypesCompatible (5.8.5)."""
    if loc_t["kind"] == "NonNullType":
        if var_t["kind"] != "NonNullType":
            return False
        return _types_compatible(var_t["type"], loc_t["type"])
    if var_t["kind"] == "NonNullType":
        return _types_compatible(var_t["type"], loc_t)
    if loc_t["kind"] == "ListType":
        if var_t["kind"] != "ListType":
            return False
        return _types_compatible(var_t["type"], loc_t["type"])
    if var_t["kind"] == "ListType":
        return False
    return var_t["name"] == loc_t["name"]


def _same_value(a, b):
    return strip_raw(a) == strip_raw(b)


class _Validator(object):
    def __init__(self, schema, doc, require_used_fragments):
        self.s = schema
        self.doc = doc
        self.errors = []
        self.require_used_fragments = require_used_fragments
        self.fragments = {}
        self.usages = {}      # id(definition) -> [(varname, location type | None, location has default)]
        self.spreads = {}     # id(definition) -> [fragment names]
        self.cur = None
        self._merge_memo = {}

    def err(self, rule, msg):
        self.errors.append(GraphQLValidationError(rule, msg))

    # ---- driver
    def run(self):
        s = self.s
        defs = self.doc["definitions"]
        ops = [d for d in defs if d["kind"] == "OperationDefinition"]
        frags = [d for d in defs if d["kind"] == "FragmentDefinition"]
        for d in defs:                                                     # 5.1.1
            if d["kind"] not in ("OperationDefinition", "FragmentDefinition"):
                self.err("ExecutableDefinitions", "%s is not executable" % d["kind"])
        seen = set()
        for o in ops:                                                      # 5.2.1.1
            if o["name"] is not None:
                if o["name"] in seen:
                    self.err("UniqueOperationNames", "operation %s defined twice" % o["name"])
                seen.add(o["name"])
        if len(ops) > 1 and any(o["name"] is None for o in ops):           # 5.2.2.1
            self.err("LoneAnonymousOperation", "anonymous operation must be the only operation")
        for f in frags:                                                    # 5.5.1.1
            if f["name"] in self.fragments:
                self.err("UniqueFragmentNames", "fragment %s defined twice" % f["name"])
            else:
                self.fragments[f["name"]] = f
        for f in frags:
            self.cur = id(f)
            self.usages[self.cur] = []
            self.spreads[self.cur] = []
            tc = self.type_condition(f["typeCondition"], "fragment " + f["name"])
            self.directives(f["directives"], "FRAGMENT_DEFINITION")
            self.selection_set(tc, f["selectionSet"])
        for o in ops:
            self.cur = id(o)
            self.usages[self.cur] = []
            self.spreads[self.cur] = []
            root = s.root(o["operation"])
            if root is None:
                self.err("OperationTypeExists", "schema has no %s root type" % o["operation"])
            self.variable_definitions(o)
            self.directives(o["directives"], o["operation"].upper())
            self.selection_set(root, o["selectionSet"])
            if o["operation"] == "subscription":                           # 5.2.3.1
                keys = set()
                self.collect_response_keys(o["selectionSet"], keys, set())
                if len(keys) != 1:
                    self.err("SingleFieldSubscriptions", "subscription must select exactly one root field")
            self.operation_variables(o)
        self.fragment_graph(ops, frags)
        return self.errors

    def collect_response_keys(self, sels, keys, visited):
        for sel in sels:
            k = sel["kind"]
            if k == "Field":
                keys.add(sel["alias"] if sel["alias"] is not None else sel["name"])
            elif k == "InlineFragment":
                self.collect_response_keys(sel["selectionSet"], keys, visited)
            elif sel["name"] not in visited and sel["name"] in self.fragments:
                visited.add(sel["name"])
                self.collect_response_keys(self.fragments[sel["name"]]["selectionSet"], keys, visited)

    # ---- 5.5 fragments
    def type_condition(self, name, where):
        t = self.s.types.get(name)
        if t is None:                                                      # 5.5.1.2
            self.err("KnownTypeNames", "unknown type %s in %s" % (name, where))
            return None
        if t["kind"] not in ("OBJECT", "INTERFACE", "UNION"):              # 5.5.1.3
            self.err("FragmentsOnCompositeTypes", "%s: type condition %s is not composite" % (where, name))
            return None
        return name

    def possible_spread(self, parent, frag_type, what):                    # 5.5.2.3
        if parent is None or frag_type is None:
            return
        if not (self.s.possible_types(parent) & self.s.possible_types(frag_type)):
            self.err("PossibleFragmentSpreads", "%s of type %s can never apply within %s" % (what, frag_type, parent))

    def fragment_graph(self, ops, frags):
        used = set()
        stack = [n for o in ops for n in self.spreads[id(o)]]
        while stack:
            n = stack.pop()
            if n in used or n not in self.fragments:
                continue
            used.add(n)
            stack.extend(self.spreads[id(self.fragments[n])])
        if self.require_used_fragments:                                    # 5.5.1.4
            for f in frags:
                if f["name"] not in used and self.fragments.get(f["name"]) is f:
                    self.err("NoUnusedFragments", "fragment %s is never used" % f["name"])
        # 5.5.2.2 cycles: DFS colouring
        colour = {}

        def visit(name):
            colour[name] = 1
            for n in self.spreads[id(self.fragments[name])]:
                if n not in self.fragments:
                    continue
                c = colour.get(n, 0)
                if c == 1:
                    self.err("NoFragmentCycles", "fragment %s spreads itself (via %s)" % (n, name))
                elif c == 0:
                    visit(n)
            colour[name] = 2
        for f in frags:
            if colour.get(f["name"], 0) == 0 and self.fragments.get(f["name"]) is f:
                visit(f["name"])

    # ---- 5.3 fields, 5.4 arguments
    def selection_set(self, parent, sels):
        s = self.s
        for sel in sels:
            k = sel["kind"]
            if k == "Field":
                fd = None
                if parent is not None:
                    fd = s.field(parent, sel["name"])
                    if fd is None:                                         # 5.3.1
                        self.err("FieldsOnCorrectType", "field %s does not exist on %s" % (sel["name"], parent))
                self.arguments(sel["arguments"], fd["args"] if fd is not None else None,
                               "field %s" % sel["name"])
                self.directives(sel["directives"], "FIELD")
                sub = None
                if fd is not None:
                    sub = _named(fd["type"])
                    rt = s.types.get(sub)
                    if rt is None:
                        self.err("KnownTypeNames", "field %s.%s has unknown type %s" % (parent, sel["name"], sub))
                        sub = None
                    elif rt["kind"] in ("SCALAR", "ENUM"):                 # 5.3.3
                        if sel["selectionSet"] is not None:
                            self.err("ScalarLeafs", "leaf field %s.%s cannot have a selection set"
                                     % (parent, sel["name"]))
                        sub = None
                    elif rt["kind"] == "INPUT_OBJECT":
                        self.err("KnownTypeNames", "field %s.%s returns an input type" % (parent, sel["name"]))
                        sub = None
                    elif sel["selectionSet"] is None:
                        self.err("ScalarLeafs", "field %s.%s of composite type %s needs a selection set"
                                 % (parent, sel["name"], sub))
                if sel["selectionSet"] is not None:
                    self.selection_set(sub, sel["selectionSet"])
            elif k == "FragmentSpread":
                self.spreads[self.cur].append(sel["name"])
                self.directives(sel["directives"], "FRAGMENT_SPREAD")
                f = self.fragments.get(sel["name"])
                if f is None:                                              # 5.5.2.1
                    self.err("KnownFragmentNames", "unknown fragment %s" % sel["name"])
                else:
                    ft = self.s.types.get(f["typeCondition"])
                    if ft is not None and ft["kind"] in ("OBJECT", "INTERFACE", "UNION"):
                        self.possible_spread(parent, f["typeCondition"], "fragment " + sel["name"])
            else:
                tc = parent
                if sel["typeCondition"] is not None:
                    tc = self.type_condition(sel["typeCondition"], "inline fragment")
                    self.possible_spread(parent, tc, "inline fragment")
                self.directives(sel["directives"], "INLINE_FRAGMENT")
                self.selection_set(tc, sel["selectionSet"])
        if parent is not None:
            self.fields_in_set_can_merge(parent, sels)

    def arguments(self, args, arg_defs, where):
        seen = set()
        for a in args:
            if a["name"] in seen:                                          # 5.4.2
                self.err("UniqueArgumentNames", "argument %s given twice on %s" % (a["name"], where))
            seen.add(a["name"])
            ad = None
            if arg_defs is not None:
                ad = arg_defs.get(a["name"])
                if ad is None:                                             # 5.4.1
                    self.err("KnownArgumentNames", "unknown argument %s on %s" % (a["name"], where))
            if ad is not None:
                self.value(a["value"], ad["type"], ad["defaultValue"] is not None, "argument %s of %s"
                           % (a["name"], where))
            else:
                self.value(a["value"], None, False, where)
        if arg_defs is not None:                                           # 5.4.2.1
            for n, ad in arg_defs.items():
                if ad["type"]["kind"] == "NonNullType" and ad["defaultValue"] is None and n not in seen:
                    self.err("ProvidedRequiredArguments", "required argument %s missing on %s" % (n, where))

    # ---- 5.7 directives
    def directives(self, dirs, location):
        seen = set()
        for d in dirs:
            dd = self.s.directives.get(d["name"])
            if dd is None:                                                 # 5.7.1
                self.err("KnownDirectives", "unknown directive @%s" % d["name"])
            elif location not in dd["locations"]:                          # 5.7.2
                self.err("KnownDirectives", "directive @%s not allowed on %s" % (d["name"], location))
            if d["name"] in seen:                                          # 5.7.3
                self.err("UniqueDirectivesPerLocation", "directive @%s used twice" % d["name"])
            seen.add(d["name"])
            self.arguments(d["arguments"], dd["args"] if dd is not None else None, "directive @" + d["name"])

    # ---- 5.6 values
    def value(self, v, t, loc_default, where):
        """v: value AST; t: expected type AST or None (unknown: only variables are recorded)."""
        k = v["kind"]
        if k == "Variable":
            if self.cur is not None:
                self.usages[self.cur].append((v["name"], t, loc_default))
            return
        if t is None:
            if k == "ListValue":
                for x in v["values"]:
                    self.value(x, None, False, where)
            elif k == "ObjectValue":
                self.unique_input_fields(v, where)
                for f in v["fields"]:
                    self.value(f["value"], None, False, where)
            return
        tk = t["kind"]
        if tk == "NonNullType":
            if k == "NullValue":
                self.err("ValuesOfCorrectType", "null given for non-null %s in %s" % (print_type(t), where))
                return
            return self.value(v, t["type"], loc_default, where)
        if k == "NullValue":
            return
        if tk == "ListType":
            if k == "ListValue":
                for x in v["values"]:
                    self.value(x, t["type"], False, where)
            else:       # input coercion of a single item to a list of one
                self.value(v, t["type"], False, where)
            return
        name = t["name"]
        td = self.s.types.get(name)
        if td is None:
            self.err("KnownTypeNames", "unknown input type %s in %s" % (name, where))
            return self.value(v, None, False, where)
        kind = td["kind"]

        def bad():
            self.err("ValuesOfCorrectType", "%s is not a valid %s in %s" % (print_value(v)[:40], name, where))
        if kind == "INPUT_OBJECT":
            if k != "ObjectValue":
                return bad()
            self.unique_input_fields(v, where)
            given = set()
            for f in v["fields"]:
                given.add(f["name"])
                fd = td["inputFields"].get(f["name"])
                if fd is None:                                             # 5.6.2
                    self.err("ValuesOfCorrectType", "unknown field %s of input type %s in %s"
                             % (f["name"], name, where))
                    self.value(f["value"], None, False, where)
                else:
                    self.value(f["value"], fd["type"], fd["defaultValue"] is not None, where)
            for n, fd in td["inputFields"].items():                        # 5.6.4
                if fd["type"]["kind"] == "NonNullType" and fd["defaultValue"] is None and n not in given:
                    self.err("ValuesOfCorrectType", "required field %s.%s missing in %s" % (name, n, where))
            return
        if kind == "ENUM":
            if k != "EnumValue" or v["value"] not in td["values"]:
                bad()
            return
        if kind != "SCALAR":
            self.err("VariablesAreInputTypes", "%s is not an input type in %s" % (name, where))
            return
        if k in ("ListValue", "ObjectValue"):
            # custom scalars may accept anything; nested variables still count as usages
            self.value(v, None, False, where)
        if name == "Int":
            if k != "IntValue" or not (-2 ** 31 <= int(v["value"]) < 2 ** 31):
                bad()
        elif name == "Float":
            if k not in ("IntValue", "FloatValue"):
                bad()
        elif name == "String":
            if k != "StringValue":
                bad()
        elif name == "Boolean":
            if k != "BooleanValue":
                bad()
        elif name == "ID":
            if k not in ("StringValue", "IntValue"):
                bad()

    def unique_input_fields(self, v, where):                               # 5.6.3
        seen = set()
        for f in v["fields"]:
            if f["name"] in seen:
                self.err("UniqueInputFieldNames", "input field %s given twice in %s" % (f["name"], where))
            seen.add(f["name"])

    # ---- 5.8 variables
    def variable_definitions(self, op):
        seen = set()
        for vd in op["variableDefinitions"]:
            n = vd["variable"]
            if n in seen:                                                  # 5.8.1
                self.err("UniqueVariableNames", "variable $%s defined twice" % n)
            seen.add(n)
            td = self.s.types.get(_named(vd["type"]))
            if td is None:
                self.err("KnownTypeNames", "unknown type %s of variable $%s" % (_named(vd["type"]), n))
            elif td["kind"] not in ("SCALAR", "ENUM", "INPUT_OBJECT"):     # 5.8.2
                self.err("VariablesAreInputTypes", "variable $%s has non-input type %s"
                         % (n, print_type(vd["type"])))
            elif vd["defaultValue"] is not None:
                cur, self.cur = self.cur, None      # a default value is constant: no usages
                self.value(vd["defaultValue"], vd["type"], False, "default value of $" + n)
                self.cur = cur
            self.directives(vd["directives"], "VARIABLE_DEFINITION")

    def operation_variables(self, op):
        name = op["name"] or "<anonymous>"
        defs = {}
        for vd in op["variableDefinitions"]:
            defs.setdefault(vd["variable"], vd)
        usages = list(self.usages[id(op)])
        visited = set()
        stack = list(self.spreads[id(op)])
        while stack:
            n = stack.pop()
            if n in visited or n not in self.fragments:
                continue
            visited.add(n)
            f = self.fragments[n]
            usages.extend(self.usages[id(f)])
            stack.extend(self.spreads[id(f)])
        used = set()
        reported = set()
        for vname, loc_t, loc_default in usages:
            used.add(vname)
            vd = defs.get(vname)
            if vd is None:                                                 # 5.8.3
                if vname not in reported:
                    reported.add(vname)
                    self.err("NoUndefinedVariables", "variable $%s is not defined by operation %s" % (vname, name))
                continue
            if loc_t is None:
                continue
            var_t = vd["type"]                                             # 5.8.5 IsVariableUsageAllowed
            if loc_t["kind"] == "NonNullType" and var_t["kind"] != "NonNullType":
                has_var_default = vd["defaultValue"] is not None and vd["defaultValue"]["kind"] != "NullValue"
                if not has_var_default and not loc_default:
                    ok = False
                else:
                    ok = _types_compatible(var_t, loc_t["type"])
            else:
                ok = _types_compatible(var_t, loc_t)
            if not ok:
                self.err("VariablesInAllowedPosition", "variable $%s of type %s used where %s is expected"
                         % (vname, print_type(var_t), print_type(loc_t)))
        for vname in defs:                                                 # 5.8.4
            if vname not in used:
                self.err("NoUnusedVariables", "variable $%s is never used in operation %s" % (vname, name))

    # ---- 5.3.2 Field Selection Merging
    def collect_fields(self, parent, sels, out, visited):
        """response name -> [(parent type name, field node, field definition | None)]"""
        for sel in sels:
            k = sel["kind"]
            if k == "Field":
                rn = sel["alias"] if sel["alias"] is not None else sel["name"]
                fd = self.s.field(parent, sel["name"]) if parent is not None else None
                out.setdefault(rn, []).append((parent, sel, fd))
            elif k == "InlineFragment":
                tc = sel["typeCondition"] if sel["typeCondition"] is not None else parent
                if tc is not None and tc not in self.s.types:
                    tc = None
                self.collect_fields(tc, sel["selectionSet"], out, visited)
            else:
                f = self.fragments.get(sel["name"])
                if f is not None and sel["name"] not in visited:
                    visited.add(sel["name"])
                    tc = f["typeCondition"] if f["typeCondition"] in self.s.types else None
                    self.collect_fields(tc, f["selectionSet"], out, visited)

    def fields_in_set_can_merge(self, parent, sels):
        out = {}
        self.collect_fields(parent, sels, out, set())
        self.check_field_map(out)

    def check_field_map(self, out):
        for rn, lst in out.items():
            n = len(lst)
            if n < 2:
                continue
            for i in range(n):
                for j in range(i + 1, n):
                    reason = self.conflict(rn, lst[i], lst[j])
                    if reason:
                        self.err("OverlappingFieldsCanBeMerged", "fields for response name %s conflict: %s"
                                 % (rn, reason))
                        return

    def conflict(self, rn, a, b):
        pa, fa, da = a
        pb, fb, db = b
        if fa is fb:
            return None
        key = (id(fa), id(fb), pa, pb)
        if key in self._merge_memo:
            return self._merge_memo[key]
        self._merge_memo[key] = None     # cycle guard
        reason = None
        if da is not None and db is not None and not self.same_response_shape(a, b):
            reason = "different response shapes"
        else:
            ta = self.s.types.get(pa) if pa is not None else None
            tb = self.s.types.get(pb) if pb is not None else None
            both_objects = (ta is not None and tb is not None and ta["kind"] == "OBJECT"
                            and tb["kind"] == "OBJECT")
            if pa == pb or not both_objects:
                if fa["name"] != fb["name"]:
                    reason = "%s and %s are different fields" % (fa["name"], fb["name"])
                elif not self.same_arguments(fa, fb):
                    reason = "different arguments"
                elif fa["selectionSet"] is not None and fb["selectionSet"] is not None and da and db:
                    out = {}
                    self.collect_fields(_named(da["type"]), fa["selectionSet"], out, set())
                    self.collect_fields(_named(db["type"]), fb["selectionSet"], out, set())
                    for rn2, lst in out.items():
                        for i in range(len(lst)):
                            for j in range(i + 1, len(lst)):
                                r = self.conflict(rn2, lst[i], lst[j])
                                if r:
                                    reason = "subfields %s conflict: %s" % (rn2, r)
                                    break
                            if reason:
                                break
                        if reason:
                            break
        self._merge_memo[key] = reason
        return reason

    @staticmethod
    def same_arguments(fa, fb):
        if len(fa["arguments"]) != len(fb["arguments"]):
            return False
        ma = {a["name"]: a["value"] for a in fa["arguments"]}
        for b in fb["arguments"]:
            if b["name"] not in ma or not _same_value(ma[b["name"]], b["value"]):
                return False
        return True

    def same_response_shape(self, a, b, depth=0):
        ta, tb = a[2]["type"], b[2]["type"]
        while True:
            if ta["kind"] == "NonNullType" or tb["kind"] == "NonNullType":
                if ta["kind"] != tb["kind"]:
                    return False
                ta, tb = ta["type"], tb["type"]
                continue
            if ta["kind"] == "ListType" or tb["kind"] == "ListType":
                if ta["kind"] != tb["kind"]:
                    return False
                ta, tb = ta["type"], tb["type"]
                continue
            break
        da, db = self.s.types.get(ta["name"]), self.s.types.get(tb["name"])
        if da is None or db is None:
            return True
        if da["kind"] in ("SCALAR", "ENUM") or db["kind"] in ("SCALAR", "ENUM"):
            return ta["name"] == tb["name"]
        if depth > 40:
            return True
        out = {}
        if a[1]["selectionSet"] is not None:
            self.collect_fields(ta["name"], a[1]["selectionSet"], out, set())
        if b[1]["selectionSet"] is not None:
            self.collect_fields(tb["name"], b[1]["selectionSet"], out, set())
        for lst in out.values():
            for i in range(len(lst)):
                for j in range(i + 1, len(lst)):
                    if lst[i][2] is not None and lst[j][2] is not None and lst[i][1] is not lst[j][1] \
                            and not self.same_response_shape(lst[i], lst[j], depth + 1):
                        return False
        return True


def validate(schema, doc, require_used_fragments=True):
    """Spec section 5.  schema: Schema from build_schema (or a type-system AST / list of ASTs);
    doc: executable Document AST (or source text).  Returns a list of GraphQLValidationError
    (empty = valid).  Implemented rules (graphql-js names): ExecutableDefinitions, UniqueOperationNames,
    LoneAnonymousOperation, SingleFieldSubscriptions, OperationTypeExists, FieldsOnCorrectType (incl. __typename,
    __schema, __type), OverlappingFieldsCanBeMerged (FieldsInSetCanMerge + SameResponseShape), ScalarLeafs,
    KnownArgumentNames, UniqueArgumentNames, ProvidedRequiredArguments, UniqueFragmentNames, KnownTypeNames,
    FragmentsOnCompositeTypes, NoUnusedFragments (switch off with require_used_fragments=False),
    KnownFragmentNames, NoFragmentCycles, PossibleFragmentSpreads, ValuesOfCorrectType, UniqueInputFieldNames,
    KnownDirectives (+ locations), UniqueDirectivesPerLocation, UniqueVariableNames, VariablesAreInputTypes,
    NoUndefinedVariables, NoUnusedVariables, VariablesInAllowedPosition (June 2018 default-value rule)."""
    if not isinstance(schema, Schema):
        schema = build_schema(schema)
    if isinstance(doc, str):
        doc = parse_document(doc)
    return _Validator(schema, doc, require_used_fragments).run()


# ---------------------------------------------------------------------------
# self test
# ---------------------------------------------------------------------------
def _selftest():
    import json
    import time
    checks = [0]

    def ok(cond, what):
        checks[0] += 1
        if not cond:
            raise AssertionError("selftest failed: " + what)

    def accepts(fn, text, **kw):
        try:
            fn(text, **kw)
            return None
        except GraphQLSyntaxError as e:
            return e.code

    # --- lexical
    for text, kinds in [
        ("\ufeff{a}", ["{", "Name", "}"]),
        ("{,,a,,,b,}", ["{", "Name", "Name", "}"]),
        ("# c\r{a#x\n}", ["{", "Name", "}"]),
        ("-0 0 -0.0 1e5 1E+5 1.5e-3 123", ["Int", "Int", "Float", "Float", "Float", "Float", "Int"]),
        ('"" "a" """""" """a"""', ["String", "String", "BlockString", "BlockString"]),
        ('""""" """', ["BlockString"]),
        ('"""a\\"""b"""', ["BlockString"]),
        ("...&|=@$!:()[]{}", ["...", "&", "|", "=", "@", "$", "!", ":", "(", ")", "[", "]", "{", "}"]),
    ]:
        got = [k for k, _, _ in tokenize(text)][:-1]
        ok(got == kinds, "tokens of %r: %r" % (text, got))
    for text, code in [
        ("1.", "lex:invalid-number"), ("1e", "lex:invalid-number"), (".5", "lex:unexpected-dot"),
        ("01", "lex:invalid-number"), ("-", "lex:invalid-number"), ("1.e1", "lex:invalid-number"),
        ("0xF", "lex:invalid-number"), ("1_0", "lex:invalid-number"), ("1.2.3", "lex:invalid-number"),
        ("+1", "lex:unexpected-character"), ("..", "lex:unexpected-dot"), ("%", "lex:unexpected-character"),
        ('"abc', "lex:unterminated-string"), ('"a\nb"', "lex:unterminated-string"),
        ('"\\u00zz"', "lex:bad-unicode-escape"), ('"\\x"', "lex:bad-escape"),
        ('"""abc', "lex:unterminated-block-string"), ('"""a\\"""', "lex:unterminated-block-string"),
        ("\x00", "lex:not-a-source-character"), ("# \x07", "lex:not-a-source-character"),
        ("\f", "lex:not-a-source-character"), ("\U0001F600", "lex:not-a-source-character"),
    ]:
        try:
            tokenize(text)
            ok(False, "%r should not lex" % text)
        except GraphQLSyntaxError as e:
            ok(e.code == code, "%r: %s != %s" % (text, e.code, code))
    ok(len(tokenize("# \U0001F600\n{a}", full_unicode=True)) == 4, "full_unicode")

    def sval(lit):
        return parse_executable("{a(x:%s)}" % lit)["definitions"][0]["selectionSet"][0]["arguments"][0]["value"]
    ok(sval('"\\u0041\\n\\t\\"\\\\\\/\\b\\f\\r"')["value"] == 'A\n\t"\\/\b\f\r', "escapes")
    ok(sval('"\\uD83D\\uDE00"')["value"] == "\U0001F600", "surrogate pair")
    ok(sval('"#,\u00e9"')["value"] == "#,\u00e9", "no comment inside string")
    # BlockStringValue: the specification's example and edge cases
    ok(sval('"""\n    Hello,\n      World!\n\n    Yours,\n      GraphQL.\n  """')["value"]
       == "Hello,\n  World!\n\nYours,\n  GraphQL.", "spec block string example")
    for raw, val in [
        ("", ""), ("   ", ""), ("\n\n", ""), ("a", "a"), ("  a", "  a"), ("  a\n  b", "  a\nb"),
        ("\n  a\n b", " a\nb"), ("a\r\n  b\r  c", "a\nb\nc"), ("a\n\t\tb\n    c", "a\nb\n  c"),
        ("\n  a\n \n  b\n", "a\n\nb"), ("\n  a\n      \n  b", "a\n    \nb"), ("x\n    ", "x"),
        ('a\\"""b', 'a"""b'), ("        1\n  2\n  3", "        1\n2\n3"), ("1\n    2\n \t\n    3\n", "1\n2\n\n3"),
        ("\u00e9\n  \u00e9\u00e9\n   z", "\u00e9\n\u00e9\u00e9\n z"), (' " ', ' " '), ('"" ', '"" '), ("\\ ", "\\ "),
        ("a\\nb", "a\\nb"),
    ]:
        got = sval('"""' + raw + '"""')
        ok(got["value"] == val and got["block"], "block string %r -> %r (want %r)" % (raw, got["value"], val))
    # --- grammar: accepted
    for text in [
        "{a}", "query{a}", "query Q{a}", "mutation M($a:Int=1,$b:[[T!]]!){a}", "subscription{a}",
        "{a:b}", "{a(x:1)}", "{a @d}", "{a{b}}", "{...F}", "{...on T{a}}", "{...{a}}", "{... @d{a}}",
        "{on}", "{fragment}", "query on{a}", "fragment F on T{a}", "fragment F on on{a}", "{a(x:$v)}",
        "{a(x:[$v,{k:$w}])}", "{a(x:[])}", "{a(x:{})}", "{a(x:null,y:true,z:E)}", "{ ... on on {a}}",
        "{a(on:1)}", "{true}", "{null:false}", "query true{a}", "{a(x:-0)}", "{a,b,,}", "\ufeff{a}",
        "{a(x:\"\"\"\\\"\"\"\"\"\")}", "{a(x:\"\")}",
    ]:
        ok(accepts(parse_executable, text) is None, "should accept %r: %s" % (text, accepts(parse_executable, text)))
    for text in [
        "", " ", "{", "{}", "query", "query{}", "{a(}", "{a()}", "{a(x)}", "{a(x:)}", "{a:}", "{a @}", "{...}",
        "{...on}", "{... on T}", "fragment on on T{a}", "fragment F{a}", "fragment F on{a}", "query($a){b}",
        "query($a:Int=$b){c}", "query(){a}", "query($a:[Int){b}", "query($a:!Int){b}", "{a(x:1.)}", "{a}}",
        "{a}{", "{a(x:{k})}", "{a(x:[1}", "type T{a:Int}", "{a}type T{a:Int}", "extend type T{a:Int}",
        "query($a:Int @d){b}", "{a(x:$)}", "{a(1:2)}", "{1}", "{a..b}", "{a(x:\"\"\")}", "fragment F($a:Int) on T{a}",
        "{...F(a:1)}",
    ]:
        ok(accepts(parse_executable, text) is not None, "should reject %r" % text)
    ok(accepts(parse_executable, "query($a:Int @d){a}", variable_directives=True) is None, "variable directives")
    for text in [
        "type T", "type T{a:Int}", "type T implements A{a:Int}", "type T implements &A&B", "type T @d",
        "type T implements A @d {a(x:Int=1 @e):[T!]! @f}", '"d" type T{"f" a("a" x:Int):T}',
        '"""d""" scalar S @d', "interface I", "interface I{a:Int}", "union U", "union U=A", "union U=|A|B",
        "union U @d =A", "enum E", "enum E{A}", 'enum E @d{"x" A @e B}', "input I", "input I{a:Int=1 @d}",
        "directive @d on FIELD", "directive @d(a:Int=1) on|FIELD|OBJECT", '"x" directive @d on SCHEMA',
        "schema{query:Q}", "schema @d{query:Q mutation:M subscription:S}", "schema{query:Q query:R}",
        "extend schema @d", "extend schema{mutation:M}", "extend scalar S @d", "extend type T{a:Int}",
        "extend type T @d", "extend type T implements A", "extend interface I{a:Int}", "extend interface I @d",
        "extend union U=A", "extend union U @d", "extend enum E{A}", "extend enum E @d", "extend input I{a:Int}",
        "extend input I @d", "type type{type:type}", "type T{a(x:I={k:[1,\"s\",E,null]}):T}",
        "enum E{on type}", "type on{on:on}", "input I{a:Int=-1.5e3}", 'type T{a:Int @d(r:"""x""")}',
    ]:
        ok(accepts(parse_schema, text) is None, "should accept %r: %s" % (text, accepts(parse_schema, text)))
    for text in [
        "", "type", "type T{}", "type T{a}", "type T{a:}", "type T{a:Int", "type T implements", "type T implements &",
        "type T implements A&", "type T implements A B", "type T{a():Int}", "type T{a(x:Int=$v):Int}",
        "type T{a:Int=1}", "interface I implements J{a:Int}", "union U=", "union U=A|", "union U=|", "enum E{}",
        "enum E{true}", "enum E{A false}", "enum E{null}", "input I{}", "input I{a(x:Int):Int}", "directive d on FIELD",
        "directive @d", "directive @d on", "directive @d on FOO", "directive @d on FIELD|", "directive @d on field",
        "directive @d repeatable on FIELD", "directive @d on VARIABLE_DEFINITION", "schema", "schema{}",
        "schema{foo:Q}", "schema{query Q}", '"d" schema{query:Q}', "extend", "extend type T", "extend scalar S",
        "extend schema", "extend union U", "extend enum E", "extend input I", "extend interface I",
        '"d" extend type T{a:Int}', "extend directive @d on FIELD", "{a}", "query{a}", "fragment F on T{a}",
        '"a" "b" type T', "type T{\"a\" \"b\" f:Int}", '"d"', "scalar", "scalar S=1", "type T @d(a:$v)",
        "extend type T implements", "extend extend type T{a:Int}",
    ]:
        ok(accepts(parse_schema, text) is not None, "should reject %r" % text)
    for text in ["interface I implements J{a:Int}", "directive @d repeatable on FIELD",
                 "directive @d on VARIABLE_DEFINITION", '"d" schema{query:Q}', "extend interface I implements J"]:
        ok(accepts(parse_schema, text, **POST_2018) is None, "post-2018 dialect should accept %r" % text)
    ok(accepts(parse_document, "{a} type T{a:Int} fragment F on T{a}") is None, "mixed document")
    # --- print / parse round trip
    sdl = ('"""\n  T doc \\"""q\n    more\n""" type T implements A & B @d(a: [1, -2.5, "s\\n\\u00e9", true, null, E, '
           '{k: {j: []}}]) { "f" f("a" a: Int = 1 @x, b: [T!]!): T @dep g: Int }\n'
           'extend type T @k  union U = | A | B  extend union U = C  enum E { "v" A @d B }  extend enum E { C }\n'
           'input I { a: Int = 4, "x" b: [I!] = [{a: 1}] }  directive @d(a: I = {a: 2}) on FIELD | OBJECT\n'
           'schema @s { query: Q mutation: M }  extend schema { subscription: S }  scalar S @a  extend scalar S @b\n'
           'interface N @i { x(y: E = A): Int }  extend interface N { z: ID! }  extend input I @q { c: Float = 1e3 }\n'
           'type Empty  union NoMembers  enum NoValues  input NoFields  """  first\n  second""" scalar Odd "" scalar Blank')
    a = parse_schema(sdl)
    ok(strip_raw(parse_schema(print_schema(a))) == strip_raw(a), "schema print/parse round trip")
    ok(a["definitions"][0]["description"]["value"] == 'T doc """q\n  more', "description value")
    ex = ('query Q($a: Int = 1, $b: [S!]! = ["x"]) @o { a: b(x: $a, y: {k: [$b, 1.5]}) @i(if: true) '
          '{ ...F ... on T @x { c } ... { d } } } fragment F on T @fd { x(s: """bl\n  ock""") } { y } '
          'mutation { z } subscription S { w }')
    e = parse_executable(ex)
    ok(strip_raw(parse_executable(print_executable(e))) == strip_raw(e), "executable print/parse round trip")
    json.dumps(a), json.dumps(e)
    for v in ["", "a", " a", "a ", "a\nb", " a\n b", '"', 'a"', '"""', "a\\", "\\", "\n", "a\n\n b", "\t", "a\rb",
              "\u00e9\n x", "x\n\n", 'q"""', "\\\"\"\""]:
        lit = print_string(v, block=True)
        got = sval(lit)
        ok(got["value"] == v, "print_string(%r, block) -> %s -> %r" % (v, lit, got["value"]))
        ok(sval(print_string(v))["value"] == v, "print_string(%r)" % v)
    ok(sval(print_string("\U0001F600\x01\x7f"))["value"] == "\U0001F600\x01\x7f", "print_string astral/control")
    # --- validation
    schema = build_schema([parse_schema(
        'schema { query: Query mutation: Mut } type Query { a: Int b(x: Int!, y: I, e: E = A, l: [Int!]): [T] u: U '
        'n: N t: T s(id: ID, f: Float, str: String, bo: Boolean, any: Any): String } type Mut { m(i: I!): T } '
        'type T implements N { n: ID t: Int q: Query same: Int } type V implements N { n: ID t: String same: Int } '
        'interface N { n: ID } union U = T | V enum E { A B } scalar Any '
        'input I { r: Int! o: [Int] = [1] nested: I } directive @live(x: Int) on QUERY | FIELD'),
        parse_schema("extend type T { ext(a: Int = 3): String! }")])
    ok(schema.errors == [], "schema builds: %r" % schema.errors)
    ok(build_schema(parse_schema("type T{a:Int} type T{b:Int} extend type Z{a:Int}")).errors != [], "schema errors")
    valid = [
        "{a}", "{__typename}", "{t{__typename n}}", "{b(x:1){n}}", "{u{__typename ...on T{t}}}", "{n{n ...on T{t}}}",
        "query Q($v:Int!){b(x:$v){n}}", "query Q($v:Int=1){b(x:$v){n}}", "query Q($v:Int){b(x:1,l:[$v]){n}}"
        .replace("[$v]", "[1]").replace("($v:Int)", ""), "query Q($v:[Int!]){b(x:1,l:$v){n}}", "{b(x:1,l:2){n}}",
        "query Q($i:I){b(x:1,y:$i){n}}", "{b(x:1,y:{r:1,nested:{r:2,o:null}}){n}}", "mutation{m(i:{r:1}){n}}",
        "{s(id:1)b:s(id:\"x\")c:s(f:1)d:s(f:1.5)e:s(any:{z:[1]})f:s(str:\"\"\"x\"\"\",bo:false)}",
        "{t{ext}}", "{t{ext(a:null)}}", "{a @skip(if:true) @include(if:false)}", "query @live{a @live(x:1)}",
        "{u{...on T{same} ...on V{same}}}", "{u{...on T{x:t} ...on V{y:t}}}", "{a a}", "{x:a x:a}",
        "{b(x:1){n} b(x:1){t}}", "{...F} fragment F on Query{a ...G} fragment G on Query{a}",
        "{t{...F}} fragment F on N{n}", "{n{...F}} fragment F on U{__typename}", "query A{a} query B{a}",
        "{__schema{types{name}}__type(name:\"T\"){kind}}", "query($e:E){b(x:1,e:$e){n}}",
        "query($v:Int){b(x:1,y:{r:1,o:[$v]}){n}}", "query($v:Int){s(any:[$v])}",
    ]
    for q in valid:
        errs = validate(schema, parse_executable(q))
        ok(errs == [], "should validate %s: %r" % (q, errs))
    invalid = [
        ("{zz}", "FieldsOnCorrectType"), ("{u{n}}", "FieldsOnCorrectType"), ("{a{b}}", "ScalarLeafs"),
        ("{t}", "ScalarLeafs"), ("{b{n}}", "ProvidedRequiredArguments"), ("{b(x:1,zz:2){n}}", "KnownArgumentNames"),
        ("{b(x:1,x:1){n}}", "UniqueArgumentNames"), ("{b(x:\"1\"){n}}", "ValuesOfCorrectType"),
        ("{b(x:null){n}}", "ValuesOfCorrectType"), ("{b(x:1.0){n}}", "ValuesOfCorrectType"),
        ("{b(x:99999999999){n}}", "ValuesOfCorrectType"), ("{b(x:1,e:C){n}}", "ValuesOfCorrectType"),
        ("{b(x:1,e:\"A\"){n}}", "ValuesOfCorrectType"), ("{b(x:1,y:{}){n}}", "ValuesOfCorrectType"),
        ("{b(x:1,y:{r:1,zz:1}){n}}", "ValuesOfCorrectType"), ("{b(x:1,y:{r:1,r:1}){n}}", "UniqueInputFieldNames"),
        ("{b(x:1,y:[1]){n}}", "ValuesOfCorrectType"), ("{b(x:1,l:[null]){n}}", "ValuesOfCorrectType"),
        ("{s(bo:1)}", "ValuesOfCorrectType"), ("{s(str:1)}", "ValuesOfCorrectType"), ("{s(f:\"1\")}", "ValuesOfCorrectType"),
        ("{s(id:1.5)}", "ValuesOfCorrectType"), ("query Q{a} query Q{a}", "UniqueOperationNames"),
        ("{a} query Q{a}", "LoneAnonymousOperation"), ("{a} {a}", "LoneAnonymousOperation"),
        ("subscription{a}", "OperationTypeExists"), ("query($v:Int){a}", "NoUnusedVariables"),
        ("{b(x:$v){n}}", "NoUndefinedVariables"), ("query($v:Int){b(x:$v){n}}", "VariablesInAllowedPosition"),
        ("query($v:Int=null){b(x:$v){n}}", "VariablesInAllowedPosition"),
        ("query($v:String!){b(x:$v){n}}", "VariablesInAllowedPosition"),
        ("query($v:[Int]){b(x:1,l:$v){n}}", "VariablesInAllowedPosition"),
        ("query($v:Int){b(x:1,l:[$v]){n}}", "VariablesInAllowedPosition"),
        ("query($v:Int,$v:Int){b(x:1,l:$v){n}}", "UniqueVariableNames"), ("query($v:T){a}", "VariablesAreInputTypes"),
        ("query($v:Zz){a}", "KnownTypeNames"), ("query($v:Int=\"s\"){s(any:$v)}", "ValuesOfCorrectType"),
        ("{...F}", "KnownFragmentNames"), ("{a} fragment F on Query{a}", "NoUnusedFragments"),
        ("{...F} fragment F on Zz{a}", "KnownTypeNames"), ("{...F} fragment F on E{a}", "FragmentsOnCompositeTypes"),
        ("{...on Int{a}}", "FragmentsOnCompositeTypes"), ("{t{...on V{t}}}", "PossibleFragmentSpreads"),
        ("{t{...F}} fragment F on Query{a}", "PossibleFragmentSpreads"),
        ("{...F} fragment F on Query{...G} fragment G on Query{...F}", "NoFragmentCycles"),
        ("{...F} fragment F on Query{a} fragment F on Query{a}", "UniqueFragmentNames"),
        ("{a @zz}", "KnownDirectives"), ("{...on Query @live{a}}", "KnownDirectives"),
        ("{a @skip(if:true) @skip(if:true)}", "UniqueDirectivesPerLocation"), ("{a @skip}", "ProvidedRequiredArguments"),
        ("{a @skip(if:1)}", "ValuesOfCorrectType"), ("{x:a x:t{n}}", "OverlappingFieldsCanBeMerged"),
        ("{x:a x:s}", "OverlappingFieldsCanBeMerged"), ("{b(x:1){n} b(x:2){n}}", "OverlappingFieldsCanBeMerged"),
        ("{u{...on T{t} ...on V{t}}}", "OverlappingFieldsCanBeMerged"),
        ("{n{...on T{x:n} ...on V{x:same}}}", "OverlappingFieldsCanBeMerged"),
        ("{t{x:n} t{x:same}}", "OverlappingFieldsCanBeMerged"),
        ("{t{q{x:a}} ...F} fragment F on Query{t{q{x:s}}}", "OverlappingFieldsCanBeMerged"),
        ("{a} type Foo{a:Int}", "ExecutableDefinitions"),
    ]
    for q, rule in invalid:
        errs = validate(schema, parse_document(q))
        ok(any(e.rule == rule for e in errs), "%s should violate %s: %r" % (q, rule, errs))
    sub = build_schema(parse_schema("type Query{a:Int} type Subscription{a:Int b:Int}"))
    ok(validate(sub, "subscription{a}") == [], "subscription ok")
    ok([e.rule for e in validate(sub, "subscription{a b}")] == ["SingleFieldSubscriptions"], "single root field")
    ok(is_name("_a1") and not is_name("1a") and not is_name("a-b") and not is_name(""), "is_name")
    # --- speed
    small = "query Q($id: ID!) { node(id: $id) { id name ... on User { friends(first: 10) { edges { node { id } } } } } }"
    t0 = time.time()
    n = 3000
    for _ in range(n):
        parse_executable(small)
    rate = n / (time.time() - t0)
    print("gqlref selftest ok: %d checks; %d small documents/s" % (checks[0], rate))
    return 0


if __name__ == "__main__":
    import sys
    if "--selftest" in sys.argv:
        sys.exit(_selftest())
    print(__doc__)
