"""C15 - merged operations are independent of how selections are arranged."""
import collections
import os
import random
import shutil
from concurrent.futures import ProcessPoolExecutor

import cli_common as cc
import isogen
import isomut
import runner
from runner import subseed

LEVEL = "exploration"
RULE = ("metamorphic pairs (P, T(P)): P a seeded well-typed project (isogen profiles core/plain/keys, biased to projects "
        "whose entrypoints reach nested client fields), T a composition of 1-3 meaning-preserving rearrangements from "
        "pylib/isomut.py: permute every selection set; repeat a scalar selection (same field and arguments) under a second "
        "alias; replace a selection with a literal argument by a new parameterised client field whose parameter is named "
        "like one of the parent's variables (names are local: a collision must not matter); move a subset of a reachable client field's selections (with the variables they use) into a new client "
        "field on the same type selected at the same place; inline a variable-free client field. Both are compiled by the "
        "real isograph_cli; for every entrypoint the bytes of query_text.ts and normalization_ast.ts must be equal. "
        "Non-trivial: the transformation changed a declaration reachable from an entrypoint and both compiles succeeded; "
        "distinct by (project seed, transformation list).")

FILES = ("query_text.ts", "normalization_ast.ts")


def entry_artifacts(root):
    adir = cc.artifact_dir_of(root)
    out = {}
    for d, _dirs, files in os.walk(adir):
        if "entrypoint.ts" in files:
            for f in FILES:
                p = os.path.join(d, f)
                out[os.path.relpath(p, adir)] = open(p, "rb").read() if os.path.exists(p) else None
    return out


def _case(spec):
    out = {"violations": [], "stats": collections.Counter(), "nontrivial": False, "distinct": None, "sample": None, "error": None}
    root = spec["root"]
    try:
        p = isogen.generate(spec["seed"], spec["profile"], **spec.get("opts", {}))
        rng = random.Random(subseed(spec["seed"], "c15"))
        if spec["seed"] % 2 == 0:
            # richer base program: the same field selected with a variable and with a literal at one place
            p = isomut.add_literal_sibling(p, rng) or p
        q, applied = p, []
        for _ in range(rng.randint(1, 3)):
            t = rng.choice(isomut.TRANSFORMS)
            try:
                r = t(q, rng)
            except (KeyError, IndexError, TypeError, StopIteration):
                r = None
            if r is not None:
                q = r
                applied.append(r.transformation)
        if not applied:
            out["stats"]["no_transformation_applicable"] += 1
            return out
        cid = f"{spec['profile']}:{spec['seed']}"
        shutil.rmtree(root, ignore_errors=True)
        p.write(root)
        r0 = cc.run_cli_timed(spec["cli"], root)
        a0 = entry_artifacts(root) if r0.ok() else None
        shutil.rmtree(root, ignore_errors=True)
        q.write(root)
        r1 = cc.run_cli_timed(spec["cli"], root)
        a1 = entry_artifacts(root) if r1.ok() else None
        for t in applied:
            out["stats"]["T:" + t["t"]] += 1
        wit = {"case": cid, "transformations": applied,
               "replay": {"generator": "pylib/isogen.py + pylib/isomut.py (props/c15.py:_case)", "seed": spec["seed"], "profile": spec["profile"], "opts": spec.get("opts")}}
        if r0.timed_out or r1.timed_out:
            out["error"] = "watchdog"
            return out
        if not r0.ok():
            out["stats"]["base_rejected(see C16)"] += 1
            return out
        if not r1.ok():
            if r1.panicked() or r1.signal:
                out["stats"]["transformed_crashed(see C08)"] += 1
                return out
            # the rearranged program must mean the same; a rejection shows the transformation was not meaning preserving
            # for the compiler (e.g. a rule about duplicates) - recorded, not a C15 violation
            out["stats"]["transformed_rejected"] += 1
            out["rejected_msg"] = cc.ANSI.sub("", r1.stderr)[-300:]
            return out
        out["stats"]["pairs_compared"] += 1
        out["stats"]["entrypoint_files_compared"] += len(a0)
        if set(a0) != set(a1):
            out["violations"].append({"rule": "entrypoints", "signature": "C15/entrypoint-set-differs", "what": f"{cid}: entrypoints differ after {applied}",
                                      "witness": wit})
        for k in sorted(set(a0) & set(a1)):
            if a0[k] != a1[k]:
                kinds = "+".join(sorted({t["t"] for t in applied}))
                out["violations"].append({
                    "rule": "operation-changed", "signature": f"C15/{os.path.basename(k)}-changed-by/{kinds}",
                    "what": f"{cid}: {k} differs after {[t['t'] for t in applied]}",
                    "witness": dict(wit, file=k, before=(a0[k] or b"").decode(errors="replace")[:1500], after=(a1[k] or b"").decode(errors="replace")[:1500],
                                    sources_before=p.files, sources_after=q.files)})
        out["nontrivial"] = True
        out["distinct"] = f"{cid}:{[t['t'] for t in applied]}"
        out["sample"] = {"case": cid, "transformations": applied, "entrypoint_files": sorted(a0)[:4]}
        return out
    except runner.Inconclusive as e:
        out["error"] = str(e)
        return out
    finally:
        out["stats"] = dict(out["stats"])
        shutil.rmtree(root, ignore_errors=True)


def run(ctx):
    cli = runner.build_cli()
    n = ctx.pick(200, 7000)
    specs = []
    for prof, opts in (("core", {}), ("plain", {"max_decls": 8}), ("keys", {"max_decls": 8})):
        for i in range(n):
            seed = subseed(ctx.seed, "c15", prof, i) % (1 << 48)
            specs.append({"seed": seed, "profile": prof, "opts": opts, "cli": cli, "root": os.path.join(ctx.work, f"c15-{prof}-{i}")})
    with ProcessPoolExecutor(max_workers=runner.NCPU) as ex:
        results = list(ex.map(_case, specs, chunksize=1))
    errs = [r["error"] for r in results if r.get("error")]
    if len(errs) > max(2, len(results) // 20):
        raise runner.Inconclusive(f"{len(errs)} cases inconclusive, e.g. {errs[0]}")
    v, stats, distinct, samples = [], collections.Counter(), set(), []
    rejected = collections.Counter()
    for r in results:
        v += r["violations"]
        stats.update(r["stats"])
        if r.get("rejected_msg"):
            rejected[r["rejected_msg"].strip().split("\n")[0][:100]] += 1
        if r["nontrivial"]:
            distinct.add(r["distinct"])
        if r["sample"] and len(samples) < 3:
            samples.append(r["sample"])
    cov = {"evaluations": len(results), "distinct_nontrivial": len(distinct), "rule": RULE, "samples": samples or [{"note": "none"}],
           "observed": dict(stats), "transformed_rejected_messages": dict(rejected.most_common(5))}
    return runner.finish(ctx, LEVEL, cov, v, assumptions=[
        "the four transformations preserve the set of (field, arguments) paths the readers need (by construction in pylib/isomut.py)",
        "refetch query artifacts are not compared (their numbering may follow reader structure); only the entrypoint's own operation and normalization AST",
    ])


def replay(ctx, path):
    return run(ctx)
