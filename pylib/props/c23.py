"""C23 - every position / range the language server sends designates, under the
UTF-16 convention, exactly the text it describes."""
import lsp_common as lc
import runner

LEVEL = "exploration"
RULE = ("seeded projects: a schema (optionally CRLF, with 2-/3-byte characters in descriptions on the same line as field "
        "definitions), a file defining client fields, and a document with 1..4 iso literals (schema-valid ones with known "
        "hover/definition targets, grammar-level ones, deliberately broken and semantically wrong ones for diagnostics) "
        "amid 2-, 3- and 4-byte characters before / between / after the literals, non-ASCII strings and multi-line block "
        "strings inside them, LF or CRLF; document on disk or as open buffer. Checked with an independent byte<->UTF-16 "
        "converter: semantic-token stream decoded to absolute ranges == the parser's tokens (each one lexeme of an "
        "independent lexing, same type, pieces of multi-line tokens single-line, increasing, non-overlapping); every "
        "published diagnostic range == the byte span of the compiler's diagnostic; formatting edit ranges == the literal; "
        "hover at cursor positions inside known tokens describes that token; definition answers slice to exactly the "
        "defined name in the schema / the defining file. Non-trivial: a document with non-ASCII text before an accepted literal.")


def run(ctx):
    n = ctx.pick(3200, 240_000)
    rep = lc.run_tool(ctx, "positions", n, samples=2, chunk=ctx.pick(200, 2000))
    v = lc.violations("C23", rep)
    c = rep["counters"]
    cov = {
        "evaluations": rep["cases"],
        "distinct_nontrivial": rep["nontrivial"],
        "rule": RULE,
        "samples": lc.trim_samples(rep["samples"]),
        "observed": {k: c.get(k, 0) for k in (
            "literals", "literals_accepted", "semantic_tokens_decoded", "semantic_tokens_matched", "multi_line_tokens_seen",
            "diagnostic_ranges_checked", "format_ranges_checked", "hovers", "definitions", "documents_with_crlf",
            "documents_with_non_ascii_inside_literals", "validate_panics", "diagnostic_spans_unsliceable")},
        "harness_errors": len(rep["harness_errors"]),
    }
    return runner.finish(ctx, LEVEL, cov, v, assumptions=[
        "line terminators in the workload are LF and CRLF (a lone CR, which the LSP specification also counts, is not generated)",
        "cursor positions are strictly inside a token or at its first character after white space "
        "(which node owns a boundary shared by two adjacent tokens is C32's question)",
        "characters above U+FFFF occur around literals and in comments, not inside iso string literals or schema strings "
        "(the lexers reject them there)",
        "hover answers carry no range (the server sends none); the hover check is that the cursor position is mapped to the right token",
    ])


def replay(ctx, path):
    return run(ctx)
