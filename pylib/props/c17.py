"""C17 - a failed compile leaves the artifact directory untouched."""
import collections
import json
import os
import random
import re
import shutil
from concurrent.futures import ProcessPoolExecutor

import cli_common as cc
import hostile
import isogen
import isomut
import runner
from runner import subseed

LEVEL = "exploration"
RULE = ("seeded histories with the real isograph_cli on one project directory: a successful compile of a well-typed "
        "project P populates the artifact directory (variants: directory absent, empty, holding stale artifacts of another "
        "project, holding foreign files); then an invalid P' is compiled over the same directory. P' = P after 0-2 "
        "meaning-preserving or layout edits that WOULD change artifacts (extract / inline a client field, duplicate a "
        "selection, relayout) plus one fault: a single-fault validation mutant (pylib/isomut.py), a syntax error in one "
        "literal, a broken or missing schema, an entrypoint of an undefined field, a duplicate declaration; and a second "
        "workload where P is the hand-written base project of pylib/hostile.py (schema extension with @exposeField, "
        "pointers, loadable fields) and P' one of its ~26 hostile shapes, i.e. every kind of diagnostic the compiler "
        "produces (schema / extension / @exposeField / entrypoint / directive / pointer / variable / argument oddities). Snapshot "
        "of every FILE below the artifact directory (path, bytes, mtime in ns, inode) before and after must be identical "
        "when the compile reported an error (exit != 0); changes to directories alone (an empty __isograph created by a "
        "failed first compile) are recorded, not judged - the statement is about artifact files. Non-trivial: the failing "
        "compile happened over a directory holding files; distinct by "
        "(initial state, fault kind, seed).")


def snapshot(d):
    out = {}
    if not os.path.lexists(d):
        return {"<absent>": True}
    for root, dirs, files in os.walk(d):
        dirs.sort()
        rel = os.path.relpath(root, d)
        st = os.stat(root)
        out[rel + "/"] = ("dir", st.st_mtime_ns)
        for f in sorted(files):
            p = os.path.join(root, f)
            st = os.lstat(p)
            with open(p, "rb") as fh:
                data = fh.read()
            out[os.path.normpath(os.path.join(rel, f))] = (len(data), hash(data), st.st_mtime_ns, st.st_ino)
    return out


RAW_FAULTS = ["syntax-error-in-literal", "schema-syntax-error", "schema-missing", "entrypoint-of-undefined-field",
              "duplicate-declaration", "schema-missing-type"]


def raw_fault(p, kind, rng, root):
    """Apply a fault that is not expressible on the Project model by editing the written files."""
    cfg = cc.read_config(root)
    src = os.path.join(root, cfg["project_root"])
    files = []
    for d, _dirs, fs in os.walk(src):
        if "__isograph" in d:
            continue
        files += [os.path.join(d, f) for f in fs if f.endswith((".ts", ".tsx", ".js", ".jsx"))]
    files.sort()
    f = rng.choice(files)
    text = open(f).read()
    if kind == "syntax-error-in-literal":
        i = text.find("{", text.find("iso(`"))
        if i < 0:
            text += "\nexport const broken = iso(`field Query.Broken {{ `)((x) => x);\n"
        else:
            text = text[:i + 1] + " ( " + text[i + 1:]
        open(f, "w").write(text)
    elif kind == "entrypoint-of-undefined-field":
        open(f, "a").write("\nexport const epNope = iso(`entrypoint Query.DoesNotExist9`);\n")
    elif kind == "duplicate-declaration":
        d = [x for x in p.decls if x.kind == "field"][0]
        open(f, "a").write(f"\nexport const dupDecl = iso(`\n  field {d.parent}.{d.name} {{\n    __typename\n  }}\n`)((x) => x);\n")
    elif kind == "schema-syntax-error":
        sp = os.path.join(root, cfg["schema"])
        open(sp, "a").write("\ntype Broken { a: }\n")
    elif kind == "schema-missing":
        os.remove(os.path.join(root, cfg["schema"]))
    elif kind == "schema-missing-type":
        sp = os.path.join(root, cfg["schema"])
        open(sp, "a").write("\ntype UsesMissing { a: TypeThatDoesNotExist }\n")


def _case(spec):
    out = {"violations": [], "stats": collections.Counter(), "nontrivial": False, "distinct": None, "sample": None, "error": None}
    root = spec["root"]
    try:
        seed = spec["seed"]
        rng = random.Random(subseed(seed, "c17"))
        p = isogen.generate(seed, spec["profile"])
        cid = f"{spec['profile']}:{seed}"
        shutil.rmtree(root, ignore_errors=True)
        p.write(root)
        adir = cc.artifact_dir_of(root)
        init = spec["init"]
        if init == "stale-other-project":
            other = isogen.generate(seed ^ 0xABCDEF, "core")
            other.config = p.config
            oroot = root + "-other"
            other.write(oroot)
            r = cc.run_cli_timed(spec["cli"], oroot)
            if r.ok():
                shutil.copytree(cc.artifact_dir_of(oroot), adir, dirs_exist_ok=True)
            shutil.rmtree(oroot, ignore_errors=True)
        elif init == "foreign-files":
            os.makedirs(os.path.join(adir, "Foreign", "dir"), exist_ok=True)
            open(os.path.join(adir, "Foreign", "dir", "keep.txt"), "w").write("not an artifact")
            open(os.path.join(adir, "README.md"), "w").write("hello")
        elif init == "empty":
            os.makedirs(adir, exist_ok=True)
        if init != "absent-no-first-compile":
            r0 = cc.run_cli_timed(spec["cli"], root)
            if not r0.ok():
                out["stats"]["first_compile_failed(see C16/C18)"] += 1
                return out
        # P' : edits that would change artifacts, plus one fault
        q, edits = p, []
        for _ in range(rng.randint(0, 2)):
            t = rng.choice([isomut.t_extract_client_field, isomut.t_duplicate_under_alias, isomut.t_inline_client_field, isomut.relayout])
            try:
                r = t(q, rng)
            except (KeyError, IndexError, TypeError, StopIteration):
                r = None
            if r is not None:
                q = r
                edits.append(r.transformation["t"])
        fault = spec["fault"]
        if fault == "validation":
            ms = isomut.single_fault_mutants(q, rng)
            ms = [m for m in ms if m.mutation["fault"] != "undefined-argument-named-id"]
            if not ms:
                out["stats"]["no_mutant"] += 1
                return out
            q = rng.choice(ms)
            fault = "validation:" + q.mutation["fault"]
        # rewrite sources (not the artifact directory)
        cfg = cc.read_config(root)
        src = os.path.join(root, cfg["project_root"])
        for d, dirs, fs in os.walk(src):
            if "__isograph" in dirs:
                dirs.remove("__isograph")
            for f in fs:
                os.remove(os.path.join(d, f))
        for rel, text in q.files.items():
            path = os.path.join(src, rel)
            os.makedirs(os.path.dirname(path), exist_ok=True)
            open(path, "w").write(text)
        if not fault.startswith("validation:"):
            raw_fault(q, fault, rng, root)
        before = snapshot(adir)
        r1 = cc.run_cli_timed(spec["cli"], root)
        after = snapshot(adir)
        out["stats"]["failing_compiles_run"] += 1
        out["stats"]["fault:" + fault.split(":")[0]] += 1
        out["stats"]["init:" + init] += 1
        wit = {"case": cid, "initial_state": init, "edits": edits, "fault": fault,
               "replay": {"generator": "pylib/props/c17.py:_case", "seed": seed, "profile": spec["profile"], "init": init, "fault": spec["fault"]}}
        if r1.timed_out:
            out["error"] = "watchdog"
            return out
        if r1.ok():
            out["stats"]["fault_not_rejected(see C16)"] += 1
            return out
        if r1.panicked() or r1.signal:
            out["stats"]["crashed(see C08)"] += 1
        # the statement speaks of artifact FILES: directories (e.g. an empty __isograph created by a failed first
        # compile) are recorded as an observation, not judged
        bdirs = {k for k, v in before.items() if k.endswith("/") or k == "<absent>"}
        adirs = {k for k, v in after.items() if k.endswith("/") or k == "<absent>"}
        if bdirs != adirs:
            out["stats"]["directory_set_changed_by_failed_compile(not judged)"] += 1
        before = {k: v for k, v in before.items() if k not in bdirs}
        after = {k: v for k, v in after.items() if k not in adirs}
        if before != after:
            created = sorted(k for k in after if k not in before)
            deleted = sorted(k for k in before if k not in after)
            modified = sorted(k for k in after if k in before and before[k] != after[k])
            kind = "created" if created else ("deleted" if deleted else "modified")
            out["violations"].append({
                "rule": "artifact-directory-touched", "signature": f"C17/failed-compile-{kind}-artifacts/{fault.split(':')[0]}",
                "what": f"{cid} [{init}; {fault}]: failed compile (exit {r1.rc}) created {created[:3]} deleted {deleted[:3]} modified {modified[:3]}",
                "witness": dict(wit, created=created[:20], deleted=deleted[:20], modified=modified[:20], stderr=cc.ANSI.sub("", r1.stderr)[-800:])})
        out["nontrivial"] = len(before) >= 1
        out["distinct"] = f"{init}|{fault}|{seed}"
        out["sample"] = {"case": cid, "initial_state": init, "edits": edits, "fault": fault, "entries_in_directory": len(before),
                         "compiler_said": cc.ANSI.sub("", r1.stderr).strip().split("\n")[4:6]}
        return out
    except runner.Inconclusive as e:
        out["error"] = str(e)
        return out
    finally:
        out["stats"] = dict(out["stats"])
        shutil.rmtree(root, ignore_errors=True)


def _hostile_case(spec):
    """P = the hand-written base project of pylib/hostile.py (schema + extension with @exposeField, pointers, loadable
    fields...), compiled successfully; P' = one of the hostile shapes (every kind of diagnostic the compiler can produce:
    schema / extension / @exposeField / entrypoint / directive / pointer / variable oddities...) written over it."""
    out = {"violations": [], "stats": collections.Counter(), "nontrivial": False, "distinct": None, "sample": None, "error": None}
    root = spec["root"]
    try:
        rng = random.Random(subseed(spec["seed"], "c17h"))
        shape = [f for f in hostile.SHAPES if f.__name__ == spec["shape"]][0]
        files = shape(rng)
        cfg1 = json.loads(files["isograph.config.json"])
        base = hostile.base(bool(cfg1.get("schema_extensions")))
        cfg0 = json.loads(base["isograph.config.json"])
        if cc.artifact_dir_of("/x", cfg0) != cc.artifact_dir_of("/x", cfg1) or cfg0["project_root"] != cfg1["project_root"]:
            out["stats"]["shape_changes_artifact_location(skipped)"] += 1
            return out
        shutil.rmtree(root, ignore_errors=True)
        hostile.write_files(base, root)
        r0 = cc.run_cli_timed(spec["cli"], root)
        if not r0.ok():
            out["stats"]["base_compile_failed"] += 1
            return out
        adir = cc.artifact_dir_of(root)
        # replace sources / schema / extension / config, never the artifact directory
        for rel in list(base):
            pth = os.path.join(root, rel)
            if os.path.exists(pth):
                os.remove(pth)
        hostile.write_files(files, root)
        before = snapshot(adir)
        r1 = cc.run_cli_timed(spec["cli"], root)
        after = snapshot(adir)
        cid = f"hostile:{spec['shape']}:{spec['seed']}"
        out["stats"]["failing_compiles_run" if not r1.ok() else "hostile_shape_accepted(not a failing compile)"] += 1
        if r1.timed_out:
            out["error"] = "watchdog"
            return out
        if r1.ok():
            return out
        out["stats"]["fault:hostile-shape"] += 1
        if r1.panicked() or r1.signal:
            out["stats"]["crashed(see C08)"] += 1
        before = {k: v for k, v in before.items() if not (k.endswith("/") or k == "<absent>")}
        after = {k: v for k, v in after.items() if not (k.endswith("/") or k == "<absent>")}
        msg = cc.ANSI.sub("", r1.stderr)
        m = re.search(r"Error when compiling\.\s*\n\s*\n(.*)", msg)
        first = (m.group(1) if m else msg.strip().split("\n")[-1])[:120]
        if before != after:
            created = sorted(k for k in after if k not in before)
            deleted = sorted(k for k in before if k not in after)
            modified = sorted(k for k in after if k in before and before[k] != after[k])
            kind = "created" if created else ("deleted" if deleted else "modified")
            out["violations"].append({
                "rule": "artifact-directory-touched", "signature": f"C17/failed-compile-{kind}-artifacts/hostile:{spec['shape']}",
                "what": f"{cid}: failed compile (exit {r1.rc}: {first}) created {created[:3]} deleted {deleted[:3]} modified {modified[:3]}",
                "witness": {"case": cid, "replay": {"generator": "pylib/props/c17.py:_hostile_case", "shape": spec["shape"], "seed": spec["seed"]},
                            "created": created[:20], "deleted": deleted[:20], "modified": modified[:20], "stderr": msg[-800:],
                            "files": {k: v for k, v in files.items() if len(v) < 4000}}})
        out["nontrivial"] = len(before) >= 1
        out["distinct"] = f"hostile|{spec['shape']}|{first[:60]}"
        out["sample"] = {"case": cid, "initial_state": "previous-compile of the base project", "fault": "hostile shape " + spec["shape"],
                         "entries_in_directory": len(before), "compiler_said": first}
        return out
    except runner.Inconclusive as e:
        out["error"] = str(e)
        return out
    finally:
        out["stats"] = dict(out["stats"])
        shutil.rmtree(root, ignore_errors=True)


def _dispatch(spec):
    return _hostile_case(spec) if spec.get("shape") else _case(spec)


INITS = ["previous-compile", "previous-compile", "stale-other-project", "foreign-files", "empty", "absent-no-first-compile"]


def run(ctx):
    cli = runner.build_cli()
    n = ctx.pick(220, 16000)
    faults = ["validation"] * 6 + RAW_FAULTS
    specs = []
    for i in range(n):
        prof = ("core", "keys", "plain")[i % 3]
        seed = subseed(ctx.seed, "c17", prof, i) % (1 << 48)
        specs.append({"seed": seed, "profile": prof, "init": INITS[i % len(INITS)], "fault": faults[(i // 2) % len(faults)],
                      "cli": cli, "root": os.path.join(ctx.work, f"c17-{i}")})
    light = [f.__name__ for f in hostile.SHAPES if f.__name__ not in hostile.HEAVY and f.__name__ != "s_valid_base"]
    # shapes whose ONLY error is a schema-level one (each diagnostic class on its own) get more repetitions
    schema_only = ["s_expose_field_only", "s_schema_dangling", "s_schema_odd_kinds", "s_duplicate_schema_things", "s_schema_definition_block"]
    for j in range(ctx.pick(4, 150)):
        for name in light + schema_only * 3:
            specs.append({"shape": name, "seed": subseed(ctx.seed, "c17h", name, j) % (1 << 48), "cli": cli,
                          "root": os.path.join(ctx.work, f"c17h-{name}-{j}-{len(specs)}")})
    with ProcessPoolExecutor(max_workers=runner.NCPU) as ex:
        results = list(ex.map(_dispatch, specs, chunksize=1))
    errs = [r["error"] for r in results if r.get("error")]
    if len(errs) > max(2, len(results) // 20):
        raise runner.Inconclusive(f"{len(errs)} cases inconclusive, e.g. {errs[0]}")
    v, stats, distinct, samples = [], collections.Counter(), set(), []
    for r in results:
        v += r["violations"]
        stats.update(r["stats"])
        if r["nontrivial"]:
            distinct.add(r["distinct"])
        if r["sample"] and len(samples) < 3 and r["nontrivial"]:
            samples.append(r["sample"])
    cov = {"evaluations": stats["failing_compiles_run"], "distinct_nontrivial": len(distinct), "rule": RULE,
           "samples": samples or [{"note": "none"}], "observed": dict(stats)}
    return runner.finish(ctx, LEVEL, cov, v, assumptions=[
        "batch mode through the real CLI; the watch-mode clause is monitored by the C20 engine (rule c17-watch-failed-compile-touched-artifacts)",
        "mtime resolution is nanoseconds on this file system; a rewrite with identical bytes changes mtime/inode and is detected",
    ])


def replay(ctx, path):
    return run(ctx)
