"""C21 - language-server answers match a freshly started server on the same
effective contents (disk, overridden by open buffers)."""
import lsp_common as lc
import runner

LEVEL = "exploration"
RULE = ("seeded histories (3..14 state-changing steps plus observation steps) over 4 files of a generated project "
        "(schema + iso literals with cross-file client fields): didOpen (before and after the first diagnostics "
        "computation; with the disk text or other text), didChange (valid <-> syntax error / unknown field / no literals), "
        "didClose, on-disk create/modify/delete of open and closed files followed by the server's own watcher path "
        "(categorize_and_filter_events + update_sources), diagnostics tick, GC. The real dispatchers / handlers run on one "
        "long-lived LspState; after (almost) every step the published diagnostics (as an editor accumulates them) and "
        "semanticTokens/full, formatting, hover and definition at sampled cursor positions are compared with two fresh "
        "servers: one started on a directory holding the effective contents ('materialised'), one started on the real "
        "disk and re-sent the open buffers ('reopened'). A divergence is shrunk (ops and initial files dropped). "
        "2 of 3 histories keep every open buffer backed by a disk file. "
        "Non-trivial: the history opened a file after diagnostics had been computed or changed an open buffer.")


def run(ctx):
    n = ctx.pick(1600, 60_000)
    rep = lc.run_tool(ctx, "session", n, samples=2, chunk=ctx.pick(150, 500))
    v = lc.violations("C21", rep)
    c = rep["counters"]
    cov = {
        "evaluations": rep["cases"],
        "distinct_nontrivial": rep["nontrivial"],
        "rule": RULE,
        "samples": lc.trim_samples(rep["samples"]),
        "observed": {k: c.get(k, 0) for k in (
            "ops", "diagnostic_comparisons", "ticks_with_diagnostics", "file_answer_comparisons",
            "opens_before_first_diagnostics", "opens_after_first_diagnostics", "opens_of_files_absent_on_disk",
            "changes", "closes", "disk_writes_of_open_files", "disk_writes_of_closed_files",
            "deletes_of_open_files", "deletes_of_closed_files", "gcs", "histories_disk_backed",
            "histories_unrestricted", "steps_skipped_fresh_servers_disagree_with_each_other",
            "histories_ended_by_a_panic_common_to_all_servers")},
        "harness_errors": len(rep["harness_errors"]),
    }
    return runner.finish(ctx, LEVEL, cov, v, assumptions=[
        "the server is driven in-process through hook H6 (real dispatch_request / dispatch_notification / debounce-tick body / "
        "update_sources); timers, the notify watcher thread and stdio framing are not part of this leg",
        "'effective contents' gives every open buffer's text to its path, also when the file is absent on disk",
        "two definitions of one client field are not generated: which one is blamed depends on hash-map order even between two fresh servers",
        "on-disk edits reach the server as one Create/Modify(Data)/Remove event per edit, as inotify reports them",
    ])


def replay(ctx, path):
    return run(ctx)
