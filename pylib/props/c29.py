"""C29 - GraphQL syntax parsing (relay-crates/graphql-syntax) matches the June 2018 specification.

Oracles: (1) construction - documents are generated AST first (pylib/gqlgen.py) and printed with random
ignored tokens, the expected tree is known without any parser; (2) gqlref (pylib/gqlref.py, transcribed
from the specification) for token-level mutations and lexical edge cases; (3) for schema documents
parse(print(parse(x))) must equal parse(x) in the crate's own terms.
Scope: June 2018 character set and grammar.  Documents that only a later specification accepts
(variable-definition directives, interfaces implementing interfaces, `repeatable`, schema descriptions,
VARIABLE_DEFINITION) are counted as `post2018-*` and never judged.
"""
import glob
import json
import os
import sys

import runner
import gql_common as gc
import gqlref

LEVEL = "exploration"
RULE = ("seeded documents: 60% built AST-first and printed with random insignificant tokens (expected tree known by "
        "construction), 30% token-level mutations (delete/insert/swap/dup/replace/edge lexemes) and 10% lexical/structural "
        "edge snippets judged by gqlref; relay parse_executable / parse_schema_document (+ print and re-parse) run on each. "
        "Non-trivial: a constructed document both sides accept that contains a block string, string escape, float, "
        "directive, default value, description, inline fragment, list or object value. Counted per document.")
FIXTURES = os.path.join(runner.REPO, "relay-crates", "graphql-syntax", "tests")
ALL_FEATURES = ["keyword-as-name", "int-edge", "int-beyond-i64", "float-value", "float-exp", "string-escape",
                "string-unicode-escape", "block-string", "block-string-quote", "block-string-escaped-triple-quote",
                "block-string-indent", "block-string-cr", "list-value", "object-value", "null-value", "enum-value",
                "directive", "alias", "fragment-spread", "inline-fragment", "shorthand-query", "variable-definitions",
                "variable-default", "fragment-definition", "description", "default-value", "implements",
                "leading-ampersand", "leading-pipe", "field-arguments", "no-fields", "union-without-members",
                "def-scalar", "def-type", "def-interface", "def-union", "def-enum", "def-input", "def-directive",
                "def-schema", "extend-schema", "extend-scalar", "extend-type", "extend-interface", "extend-union",
                "extend-enum", "extend-input"]
ALL_VERDICTS = ["agree-accept", "agree-reject", "accept-with-differences", "rejects-valid", "accepts-invalid",
                "post2018-accept", "post2018-reject", "panic", "crash"]


def run_shards(ctx, pid, plan, tool):
    """plan: [(doc_kind, mode, total documents)] -> {mode: merged report}"""
    jobs = []
    for doc_kind, mode, total in plan:
        per = max(1, total // runner.NCPU)
        for i in range(runner.NCPU):
            jobs.append({"pid": pid, "doc_kind": doc_kind, "mode": mode, "count": per, "tool": tool,
                         "seed": runner.subseed(ctx.seed, pid, mode, i)})

    def one(job):
        rc, out, err = runner.sh([sys.executable, os.path.join(runner.VERIF, "pylib", "gql_common.py"), "shard",
                                  json.dumps(job)], timeout=7200)
        try:
            res = json.loads(out.strip().split("\n")[-1])
        except (ValueError, IndexError):
            raise runner.Inconclusive("shard died: rc=%s %s" % (rc, err[-600:]))
        if "tool_error" in res:
            raise runner.Inconclusive("gql_tools: " + res["tool_error"])
        return job["mode"], res["report"]
    by_mode = {}
    for mode, rep in runner.run_shards(jobs, one):
        by_mode.setdefault(mode, []).append(rep)
    return {m: gc.merge_reports(rs) for m, rs in by_mode.items()}


def fixture_selftest(tool):
    """gqlref against the crate on the crate's own fixture inputs (dialect: everything after 2018 on,
    because the fixtures use it).  Returns (stats, problems by target)."""
    sets = [("exec", "relay-exec", ["parse_executable_document/fixtures/*.graphql",
                                    "parse_executable_document_with_error_recovery/fixtures/*.gra*ql"]),
            ("schema", "relay-schema", ["parse_schema_document/fixtures/*.graphql", "print/fixtures/*.graphql"])]
    stats = {"files": 0, "both_accept": 0, "both_reject": 0, "trees_equal": 0}
    out = []
    for doc_kind, mode, pats in sets:
        files = sorted(f for p in pats for f in glob.glob(os.path.join(FIXTURES, p)))
        if not files:
            raise runner.Inconclusive("no fixtures under " + FIXTURES)
        texts = [open(f, encoding="utf-8").read() for f in files]
        target = gc.Target("C29", doc_kind, mode, dialect=gqlref.POST_2018)
        results = gc.run_tool(mode, texts, tool)
        total = gc.merge_reports([])
        for f, text, res in zip(files, texts, results):
            stats["files"] += 1
            problems, verdict = gc.judge(target, text, res)
            if verdict == "agree-accept":
                stats["both_accept"] += 1
                stats["trees_equal"] += 1
            elif verdict == "accept-with-differences":
                stats["both_accept"] += 1
            elif verdict == "agree-reject":
                stats["both_reject"] += 1
            for p in problems:
                key = p["rule"] + "|" + p["cls"]
                slot = total["problems"].setdefault(key, {"rule": p["rule"], "cls": p["cls"], "count": 0, "examples": []})
                slot["count"] += 1
                slot["examples"].append({"text": text, "detail": os.path.basename(f) + ": " + p["detail"],
                                         "origin": "fixture"})
        out.append((target, total))
    return stats, out


def run(ctx):
    tool = os.environ.get("VERIF_GQL_TOOL")     # validation aid: a gql_tools built from a mutated copy of /repo
    if not tool:
        tool = os.path.join(runner.cargo_build(["gql_tools"]), "gql_tools")
    gc.TOOL = tool
    n = ctx.pick(10_000, 1_000_000)
    fstats, fixture_problems = fixture_selftest(tool)
    reports = run_shards(ctx, "C29", [("exec", "relay-exec", n), ("schema", "relay-schema", n)], tool)
    violations = []
    known = {k["signature"] for k in runner.load_known() if k.get("property") == "C29"}
    seen = set()
    targets = {"relay-exec": gc.Target("C29", "exec", "relay-exec"), "relay-schema": gc.Target("C29", "schema", "relay-schema")}
    for mode, rep in sorted(reports.items()):
        for v in gc.violations_from(targets[mode], rep, known=known):
            seen.add(v["signature"])
            violations.append(v)
    for target, total in fixture_problems:
        for v in gc.violations_from(gc.Target("C29", target.doc_kind, target.mode, dialect=gqlref.POST_2018), total, known=known):
            if v["signature"] not in seen:
                seen.add(v["signature"])
                v["what"] = "[crate fixture] " + v["what"]
                violations.append(v)
    harness = [v for v in violations if v["rule"] == "harness"]
    if harness:
        raise runner.Inconclusive("reference implementation disagrees with the construction oracle: "
                                  + harness[0]["what"][:300])
    feats, verdicts = {}, {}
    docs = nontrivial = 0
    samples = []
    observed = {}
    for mode, rep in sorted(reports.items()):
        docs += rep["documents"]
        nontrivial += rep["nontrivial"]
        samples += rep["samples"][:2]
        for k, v in rep["features"].items():
            feats[k] = feats.get(k, 0) + v
        for k, v in rep["verdicts"].items():
            verdicts[k] = verdicts.get(k, 0) + v
        observed[mode] = {"documents": rep["documents"], "by_origin": rep["by_origin"],
                          "mutation_ops": rep["mutation_ops"], "slowest_shard_s": rep["seconds"]}
    cov = {
        "evaluations": docs + fstats["files"],
        "distinct_nontrivial": nontrivial,
        "rule": RULE,
        "samples": samples[:5],
        "verdicts": verdicts,
        "features_in_constructed_documents": feats,
        "fixture_selftest": fstats,
        "per_entry_point": observed,
        "unexercised": {"features": [f for f in ALL_FEATURES if not feats.get(f)],
                        "verdict_categories": [v for v in ALL_VERDICTS if not verdicts.get(v)],
                        "not_comparable": ["descriptions of type / enum value / input value / schema definitions: relay's "
                                           "AST has no member for them (only field and directive definitions carry one)",
                                           "documents only a post-2018 grammar accepts are counted, not judged"]},
    }
    return runner.finish(ctx, LEVEL, cov, violations, assumptions=[
        "scope = June 2018 SourceCharacter set and grammar; later-spec syntax is classified by gqlref's dialect switches and not judged",
        "a number token directly followed by a letter, digit, '_' or '.' is an error (Oct 2021 wording of what graphql-js did in 2018)",
        "gqlref is trusted: spec-transcribed, agrees with the construction oracle on every constructed document of this run, "
        "cross-checked against the crate on the crate's own fixtures",
        "tree equality ignores spans; ints compare by lexeme and value, floats by lexeme and f64 bits, strings by value after escape processing",
    ])


def replay(ctx, path):
    return run(ctx)
