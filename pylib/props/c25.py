"""C25 - refetch references resolve to the refetch query for that field."""
import collections

import e3
import rt_common
import runner

LEVEL = "exploration"
RULE = ("generated projects (profile reuse: one hub client field with refetchable selections - __refetch, @exposeField mutation "
        "fields, a @loadable child incl. lazily loaded, a client pointer with refetchables below it - selected by >=2 parents at "
        "different depths, under lists, asFoo refinements and client pointers, and by >=2 entrypoints incl. a Mutation entrypoint; "
        "profile rt: random programs with the same features) + the four checked-in projects, compiled with the real CLI. "
        "Static leg over the artifact model: usedRefetchQueries are composed along every reader chain and then refetchQueryIndex "
        "applied exactly as read.ts does (never out of range); the selected refetch artifact must be named <Root>__<field>, be "
        "wrapped as node(id: $id){... on T{...}} or as the exposed mutation path, declare exactly its allowedVariables, and its "
        "inner selection set must equal the subtree of the entrypoint's operation text at that position (symbolic substitution of "
        "arguments along the chain); for a client pointer: exactly what the readers below the pointer read (+ id/__typename). "
        "Dynamic leg in node 22: real normalizeData + readButDoNotEvaluate, then EVERY function the readers returned for "
        "refetchable selections is invoked with a recording network function: the operation sent must be the artifact at the "
        "composed index (resp. the @loadable field's own entrypoint), the variables must carry the id of the record the selection "
        "was read on (through the fieldMap path for exposed fields), the variables the refetch query declares and the @loadable "
        "arguments. Non-trivial: a program where refetch functions were invoked and refetch queries checked; distinct by "
        "(program, holder field, kind, name).")


def run(ctx):
    cli = runner.build_cli()
    rt_common.configure(ctx, ctx.pick(2, 3))
    results = e3.run_cases(ctx, cli, ["reuse", "rt"], ctx.pick(45, 1500), "c25", [("rt_common", "analyze_c25")])
    a = e3.aggregate(results, "rt_common.analyze_c25", "distinct")
    obs = {k: v for k, v in sorted(a["stats"].items())}
    cov = {"evaluations": len(results), "distinct_nontrivial": a["distinct"], "rule": RULE,
           "samples": a["samples"] or [{"note": "no generated sample"}], "successful_compiles": a["ok"],
           "programs_with_invoked_refetch_functions": a["nontrivial"], "observed": obs}
    generated = sum(1 for r in results if str(r.get("cid", "")).split(":")[0] != "checked-in")
    if generated and a["ok"] < 0.5 * generated:
        # the generators produce programs the unchanged compiler accepts; if most are rejected (or crash, which is C08's
        # subject) there is nothing to observe
        raise runner.Inconclusive("only %d of %d generated programs compiled" % (a["ok"], generated))
    return runner.finish(ctx, LEVEL, cov, a["violations"], assumptions=[
        "same loader assumptions as C10 (@component readers loaded as eager readers, identity resolvers, client pointer resolver "
        "stand-in returning links of the target type)",
        "the network function installed in the environment records (operation, variables) and never resolves; @loadable and client "
        "pointer fetchers are called with shouldFetch: 'Yes'",
        "positions are located in the entrypoint's operation text by (field name, arguments after substituting the arguments "
        "passed down the client field chain); the operation text itself is checked against the readers by C10 and against the "
        "normalization AST by C11",
        "what lies below a client pointer is compared with what the readers below the pointer read, because the entrypoint's "
        "operation does not contain it",
    ])


def replay(ctx, path):
    return run(ctx)
