"""C14 - compilation output is deterministic."""
import collections
import hashlib
import json
import os
import random
import re
import shutil
from concurrent.futures import ProcessPoolExecutor

import cli_common as cc
import isogen
import isomut
import runner
from runner import subseed

LEVEL = "exploration"
RULE = ("seeded projects (valid ones, single-fault and multi-fault invalid ones so that several independent diagnostics "
        "exist, and projects that write the same declaration in several files; profiles core/keys/names/text) and the four checked-in projects. Each is compiled by the real isograph_cli "
        "in fresh processes (fresh hash seeds): 3 times over copies whose files were created in different orders and "
        "under different directory names (directory enumeration order), comparing every artifact byte and the printed "
        "diagnostics (normalised only for timing and colour); then 2 layout-permuted copies (declarations shuffled, moved "
        "between files, files renamed / split / merged; every literal's text preserved) whose artifacts must be equal "
        "after replacing import specifiers that leave the artifact directory (they legitimately encode the source file "
        "location) and whose *set* of diagnostic messages must be equal. Non-trivial: project with >= 2 declarations "
        "spread over the comparison; distinct by project seed x outcome kind.")

LOC = re.compile(r"^(\S[^\n:]*):(\d+):(\d+)$", re.M)
IMPORT_SPEC = re.compile(r"""(from\s+|import\s*\(\s*|require\s*\(\s*|import\s+)(['"])(\.{1,2}/[^'"]*)\2""")


def norm_artifact(rel, data, adir_depth_hint=None):
    """Replace relative specifiers that point outside the artifact directory."""
    try:
        text = data.decode()
    except UnicodeDecodeError:
        return data
    d = os.path.dirname(rel)

    def sub(m):
        target = os.path.normpath(os.path.join(d, m.group(3)))
        if target.startswith(".."):
            return m.group(1) + m.group(2) + "<USER_MODULE>" + m.group(2)
        return m.group(0)
    return IMPORT_SPEC.sub(sub, text).encode()


def read_tree(adir, normalise=False):
    out = {}
    for root, dirs, files in os.walk(adir):
        dirs.sort()
        for f in files:
            p = os.path.join(root, f)
            rel = os.path.relpath(p, adir)
            data = open(p, "rb").read()
            if normalise:
                data = norm_artifact(rel, data)
            out[rel] = hashlib.sha256(data).hexdigest()
    return out


def messages(stderr):
    """Multiset of diagnostic message heads (text before each `file:line:col` line)."""
    t = cc.ANSI.sub("", stderr)
    lines = t.split("\n")
    out = []
    for i, l in enumerate(lines):
        if LOC.match(l):
            j = i - 1
            msg = []
            while j >= 0 and lines[j].strip():
                msg.append(lines[j])
                j -= 1
            out.append("\n".join(reversed(msg)))
    return sorted(out)


def write_shuffled(p_files, schema_files, cfg, root, rng):
    """Create the project's files in a random order (affects read_dir order on some file systems)."""
    shutil.rmtree(root, ignore_errors=True)
    os.makedirs(root)
    items = [(os.path.join(cfg["project_root"], rel), text) for rel, text in p_files.items()] + list(schema_files.items())
    rng.shuffle(items)
    for rel, text in items:
        path = os.path.join(root, rel)
        os.makedirs(os.path.dirname(path), exist_ok=True)
        with open(path, "w") as f:
            f.write(text)
    with open(os.path.join(root, "isograph.config.json"), "w") as f:
        json.dump(cfg, f, indent=1)


def project_files(p):
    cfg = dict(p.config)
    schema_files = {"schema.graphql": p.schema.sdl()}
    if p.extension_sdl:
        schema_files["schema-extension.graphql"] = p.extension_sdl
        cfg["schema_extensions"] = ["./schema-extension.graphql"]
    return cfg, schema_files


def _variant(spec):
    seed = spec["seed"]
    p = isogen.generate(seed, spec["profile"])
    rng = random.Random(subseed(seed, "c14-variant"))
    kind = spec["variant"]
    if kind == "single-fault":
        ms = isomut.single_fault_mutants(p, rng)
        return rng.choice(ms) if ms else p
    if kind == "multi-fault":
        return isomut.multi_fault(p, rng, k=rng.randint(2, 4)) or p
    if kind == "duplicates":
        # the same declaration written in several files (and an undefined client field selected from several places):
        # diagnostics whose location could be any of several equally guilty places
        import copy
        q = copy.deepcopy(p)
        fields = [d for d in q.decls if d.kind == "field"]
        for j, d in enumerate(rng.sample(fields, min(len(fields), rng.randint(1, 2)))):
            for i in range(rng.randint(1, 3)):
                c = copy.deepcopy(d)
                c.file = rng.choice(["dup/a.ts", "dup/b.tsx", "a.ts", "zz/last.ts", "0first.ts"])
                c.export_name = f"{d.name}Dup{j}{i}"
                q.decls.insert(rng.randint(0, len(q.decls)), c)
        q.render_files()
        return q
    return p


def _case(spec):
    out = {"violations": [], "stats": collections.Counter(), "nontrivial": False, "distinct": None, "sample": None, "error": None}
    base = spec["root"]
    try:
        rng = random.Random(subseed(spec.get("seed", 0), "c14", spec.get("name", "")))
        runs = []
        if spec["kind"] == "generated":
            p = _variant(spec)
            cid = f"{spec['profile']}:{spec['seed']}:{spec['variant']}"
            cfg, schema_files = project_files(p)
            # option-dependent printers (iso.ts runtime switch, commonjs requires, file extensions) get their share
            cfg = json.loads(json.dumps(cfg))
            if spec["seed"] % 2 == 0:
                cfg.setdefault("options", {})["no_babel_transform"] = True
            if spec["seed"] % 3 == 0:
                cfg.setdefault("options", {})["module"] = "commonjs"
            for k in range(3):
                root = f"{base}-{'abc'[k] * (k + 1)}"
                write_shuffled(p.files, schema_files, cfg, root, rng)
                r = cc.run_cli_timed(spec["cli"], root)
                runs.append((root, r))
            layouts = []
            for k in range(2):
                q = isomut.relayout(p, rng)
                root = f"{base}-L{k}"
                write_shuffled(q.files, schema_files, cfg, root, rng)
                layouts.append((root, cc.run_cli_timed(spec["cli"], root), q.transformation))
            ndecl = len(p.decls)
        else:
            proj = [x for x in cc.checked_in_projects() if x["name"] == spec["name"]][0]
            cid = "checked-in:" + spec["name"]
            for k in range(3):
                root = f"{base}-{'xyz'[k] * (k + 1)}"
                cc.copy_checked_in(proj, root)
                runs.append((root, cc.run_cli_timed(spec["cli"], root)))
            layouts = []
            ndecl = 5
        wit = {"case": cid, "replay": {"generator": "pylib/props/c14.py:_variant", **{k: spec.get(k) for k in ("seed", "profile", "variant", "name")}}}

        def viol(rule, sig, what, **kw):
            out["violations"].append({"rule": rule, "signature": f"C14/{sig}", "what": f"{cid}: {what}"[:500], "witness": dict(wit, **kw)})
        if any(r.timed_out for _root, r in runs) or any(r.timed_out for _root, r, _t in layouts):
            out["error"] = "watchdog"
            return out
        if any(r.panicked() or r.signal for _root, r in runs):
            out["stats"]["crashed(see C08)"] += 1
            return out
        r0 = runs[0][1]
        t0 = read_tree(cc.artifact_dir_of(runs[0][0]))
        d0 = r0.diagnostics_text()
        out["stats"]["ok" if r0.ok() else "rejected"] += 1
        for root, r in runs[1:]:
            out["stats"]["fresh_process_comparisons"] += 1
            if r.ok() != r0.ok():
                viol("outcome", "outcome-differs-between-runs", f"exit {r0.rc} vs {r.rc}")
                continue
            t = read_tree(cc.artifact_dir_of(root))
            if t != t0:
                diff = sorted(k for k in set(t) | set(t0) if t.get(k) != t0.get(k))
                viol("artifact-bytes", "artifact-bytes-differ-between-runs/" + re.sub(r"[0-9]+", "N", os.path.basename(diff[0])),
                     f"{len(diff)} artifacts differ between two compiles of the same files, e.g. {diff[:3]}", files=diff[:10])
            d = r.diagnostics_text()
            if d != d0:
                a, b = messages(r0.stderr), messages(r.stderr)
                kind = "order" if a == b else "set"
                viol("diagnostics", f"diagnostics-differ-between-runs/{kind}", f"printed diagnostics differ between two compiles of the same files ({kind})",
                     first=d0[-1500:], second=d[-1500:])
        if not r0.ok():
            out["stats"]["diagnostic_messages"] += len(messages(r0.stderr))
        tn0 = read_tree(cc.artifact_dir_of(runs[0][0]), normalise=True)
        for root, r, tr in layouts:
            out["stats"]["layout_comparisons"] += 1
            if r.panicked() or r.signal:
                continue
            if r.ok() != r0.ok():
                viol("outcome", "outcome-differs-between-layouts", f"exit {r0.rc} vs {r.rc} after {tr}", stderr=cc.ANSI.sub("", r.stderr)[-800:])
                continue
            if r0.ok():
                tn = read_tree(cc.artifact_dir_of(root), normalise=True)
                if tn != tn0:
                    diff = sorted(k for k in set(tn) | set(tn0) if tn.get(k) != tn0.get(k))
                    viol("layout-artifacts", "artifacts-depend-on-file-layout/" + re.sub(r"[0-9]+", "N", os.path.basename(diff[0])),
                         f"{len(diff)} artifacts differ after moving literals between files, e.g. {diff[:3]}", files=diff[:10], layout=tr)
            else:
                a, b = messages(r0.stderr), messages(r.stderr)
                if a != b:
                    viol("layout-diagnostics", "diagnostic-set-depends-on-file-layout", f"diagnostic messages differ after moving literals between files: {a[:3]} vs {b[:3]}", layout=tr)
        out["nontrivial"] = ndecl >= 2
        out["distinct"] = f"{cid}:{'ok' if r0.ok() else 'rejected'}"
        out["sample"] = {"case": cid, "outcome": "ok" if r0.ok() else "rejected", "artifacts": len(t0),
                         "diagnostic_messages": messages(r0.stderr)[:3], "layouts": [tr for _a, _b, tr in layouts]}
        return out
    except runner.Inconclusive as e:
        out["error"] = str(e)
        return out
    finally:
        out["stats"] = dict(out["stats"])
        for suffix in ("-a", "-bb", "-ccc", "-x", "-yy", "-zzz", "-L0", "-L1"):
            shutil.rmtree(base + suffix, ignore_errors=True)


def run(ctx):
    cli = runner.build_cli()
    n = ctx.pick(12, 250)
    specs = []
    for proj in cc.checked_in_projects():
        specs.append({"kind": "checked-in", "name": proj["name"], "cli": cli, "root": os.path.join(ctx.work, "c14-ci-" + proj["name"])})
    for prof in ("core", "keys", "names", "text"):
        for variant in ("valid", "single-fault", "multi-fault", "duplicates"):
            for i in range(n):
                seed = subseed(ctx.seed, "c14", prof, variant, i) % (1 << 48)
                specs.append({"kind": "generated", "profile": prof, "variant": variant, "seed": seed, "cli": cli,
                              "root": os.path.join(ctx.work, f"c14-{prof}-{variant}-{i}")})
    with ProcessPoolExecutor(max_workers=runner.NCPU) as ex:
        results = list(ex.map(_case, specs, chunksize=1))
    errs = [r["error"] for r in results if r.get("error")]
    if len(errs) > max(2, len(results) // 20):
        raise runner.Inconclusive(f"{len(errs)} cases inconclusive, e.g. {errs[0]}")
    v, stats, distinct, samples = [], collections.Counter(), set(), []
    for r in results:
        v += r["violations"]
        stats.update(r["stats"])
        if r["nontrivial"]:
            distinct.add(r["distinct"])
        if r["sample"] and len(samples) < 4 and (len(samples) % 2 == 0) == (r["sample"]["outcome"] == "ok"):
            samples.append(r["sample"])
    cov = {"evaluations": stats["fresh_process_comparisons"] + stats["layout_comparisons"], "distinct_nontrivial": len(distinct),
           "rule": RULE, "samples": samples or [{"note": "none"}], "projects": len(results), "observed": dict(stats)}
    return runner.finish(ctx, LEVEL, cov, v, assumptions=[
        "diagnostics are compared after removing ANSI colour and the 'took N ms' timing only",
        "for layout permutations only import specifiers leaving the artifact directory are normalised; diagnostics are compared as a multiset of message heads",
        "hash-seed independence is sampled by fresh processes (std RandomState is seeded per process)",
    ])


def replay(ctx, path):
    return run(ctx)
