"""C13 - all generated artifacts are syntactically valid and import-closed."""
import e3
import runner

LEVEL = "exploration"
RULE = ("generated projects with the 'text' hazard profile (schema/declaration descriptions with comment terminators, quotes, "
        "line separators; string arguments with apostrophes, non-ASCII, `*/`; random option combinations: module, file "
        "extensions in imports, no_babel_transform, generated_file_header, artifact_directory) + core/keys profiles + "
        "checked-in projects compiled with the real CLI; every generated .ts is parsed by node 22's TypeScript stripper "
        "(mode transform) and imported, every .json by JSON.parse, every relative import specifier found by a "
        "string/comment-aware scan of the original text must resolve to a generated file. Non-trivial: successful compile; "
        "distinct by (option combination, hazard tags).")


def run(ctx):
    cli = runner.build_cli()
    n = ctx.pick(50, 4000)
    results = e3.run_cases(ctx, cli, ["text", "core", "keys", "names", "rt", "rt_text"], n, "c13", [("e3_oracles", "analyze_c13")])
    a = e3.aggregate(results, "e3_oracles.analyze_c13", "combo")
    cov = {"evaluations": len(results), "distinct_nontrivial": a["distinct"], "rule": RULE,
           "samples": a["samples"] or [{"note": "none"}], "successful_compiles": a["ok"], "observed": a["stats"]}
    return runner.finish(ctx, LEVEL, cov, a["violations"], assumptions=[
        "TypeScript syntax oracle = node 22 stripTypeScriptTypes (amaro/swc), no type checking",
        "imports of user modules from artifacts are resolved against the project's source tree",
    ])


def replay(ctx, path):
    return run(ctx)
