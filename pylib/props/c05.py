"""C05 - interning is a faithful bijection under every thread schedule (relay-crates/intern)."""
import intern_common as ic
import runner

LEVEL = "exploration"
RULE = ("Seeded histories on the real intern tables (hook H2 on): 2-8 threads released by a barrier run op scripts over a small "
        "value space per table (<= ~32 values: empty / 1 byte / 22- and 23-byte inline boundary / large / non-UTF-8 / multi-byte "
        "strings, a group of values steered into one shard, paths with shared prefixes and normalisation variants, custom "
        "intern_struct! types KeyId0..3 (a fresh table for each of the first histories of a process), PairId with a zero "
        "element, recursive NodeId) so that the same value is interned concurrently through every entry point (&[u8]/Vec/Box, "
        "&str/String/Box<str>/Cow/StringKey/FromStr, PathId::intern with and without parent), looked up with get_interned, "
        "dereferenced by threads that got the id through a Release/Acquire board, compared (Ord) and serialized "
        "(WithIntern / SerGuard+DeGuard, bincode and JSON, nested trees with repeated ids; blobs re-read in a fresh process) "
        "under a per-history delay plan at the hook sites. Offline over the merged per-thread logs plus a process-wide map: "
        "value<->id is a bijection per table; get_interned is linearizable per value (None after a returned intern, Some "
        "before any started intern); every deref equals the value; the ids handed out in a history are exactly "
        "[len_before,len_after) and earlier ids never change; Ord equals byte/text/component order; round trips equal the "
        "input. The same program under Miri (many scheduler seeds) and, in thorough, ThreadSanitizer and AddressSanitizer. Non-trivial: a new value "
        "was interned by >=2 threads and the shard write lock was contended (try_write failed) at least once; distinct = "
        "distinct hash of the merged (site,thread) hook-hit order.")

MIRI_VARIANTS = ["-Zmiri-preemption-rate=0.05", "-Zmiri-preemption-rate=0.2",
                 "-Zmiri-preemption-rate=0.1 -Zmiri-tree-borrows", "-Zmiri-preemption-rate=0.01"]


def run(ctx):
    per_shard, chunk, ops = ctx.pick((1200, 600, 120), (60_000, 3000, 400))
    rep = ic.run_native(ctx, "c05", per_shard, chunk, threads=8, ops=ops, samples=2, blob=True)
    v = ic.violations_for("C05", rep)
    inv, seeds, count = ctx.pick((8, 2, 1), (16, 16, 3))
    mrep = ic.run_miri(ctx, "c05", inv, seeds, count, threads=3, ops=ctx.pick(12, 30), variants=MIRI_VARIANTS)
    v += ic.violations_for("C05", mrep)
    tools = {"miri": {k: mrep.get(k, 0) for k in ("miri_invocations", "miri_seeds_requested", "miri_seeds_completed", "histories")},
             "miri_reports": len(mrep.get("miri_reports", [])),
             "miri_interleavings": ic.interleaving_summary(mrep),
             "miri_hook_hits_by_site": mrep.get("hook_hits", {}),
             "miri_observed": {k: mrep.get("stats", {}).get(k, 0) for k in
                               ("try_write_failures", "new_values_interned_by_2plus_threads", "serde_roundtrips", "lookups_checked")}}
    more = 0
    if not ctx.quick():
        for flavour, n in (("tsan", 1500), ("asan", 2000)):
            srep = ic.run_sanitized(ctx, "c05", flavour, n, threads=8, ops=120)
            v += ic.violations_for("C05", srep)
            more += srep.get("histories", 0)
            tools[flavour] = {"histories": srep.get("histories", 0), "report_blocks": len(srep.get("san_reports", [])),
                              "crashes": len(srep.get("crashes", [])),
                              "try_write_failures": srep.get("stats", {}).get("try_write_failures", 0)}
    extra = rep.get("extra", {})
    st = rep.get("stats", {})
    cov = {
        "evaluations": rep.get("histories", 0) + mrep.get("histories", 0) + more,
        "distinct_nontrivial": len(rep.get("fp_nontrivial", ())),
        "rule": RULE,
        "samples": rep.get("samples", [])[:3],
        "events_recorded": rep.get("events", 0),
        "observed": st,
        "contention": {"try_write_failures": st.get("try_write_failures", 0),
                       "read_path_hits": st.get("read_path_hits_under_contention", 0),
                       "read_path_misses_then_blocking_write": st.get("read_path_misses_then_blocking_write", 0)},
        "hook_hits_by_site": rep.get("hook_hits", {}),
        "delays_injected": rep.get("delays_injected", 0),
        "rendezvous_met": rep.get("rendezvous_met", 0),
        "interleavings": ic.interleaving_summary(rep),
        "histories_by_delay_plan": extra.get("histories_by_plan", {}),
        "stamped_histories": extra.get("stamped_histories", 0),
        "serde_blobs_reloaded_in_fresh_process": rep.get("blobs_loaded_in_fresh_process", 0),
        "native_crashes": len(rep.get("crashes", [])),
        "findings_not_listed": rep.get("findings_dropped", 0),
        "tools": tools,
    }
    return runner.finish(ctx, LEVEL, cov, v, assumptions=[
        "schedules are sampled (OS scheduler x delay plans x Miri scheduler seeds), not enumerated",
        "get_interned linearizability is checked in the stamped histories (SeqCst stamps around each call); unstamped "
        "histories still check program order, the bijection, density and every deref",
        "PathId order is checked against the documented component-wise order; StringId/BytesId/StringKey against text/bytes",
        "serde round trips use bincode 1.3 and serde_json as the crate's own tests do; cross-process equality compares values",
        "Miri / TSan observe only the histories they are given; Miri histories use 2-3 threads and <= 30 operations each",
    ])


def replay(ctx, path):
    return run(ctx)
