"""C16 - invalid selections are rejected and valid ones accepted."""
import collections
import os
import random
import re
import shutil
from concurrent.futures import ProcessPoolExecutor

import cli_common as cc
import e3
import isogen
import isomut
import runner
from runner import subseed

LEVEL = "exploration"
RULE = ("seeded well-typed projects (pylib/isogen.py profiles core/plain/keys: generated schema with objects, interfaces, "
        "unions, inputs, enums, custom scalars; client fields with variables, literal/object/variable arguments, aliases, "
        "refinements, client-field arguments) are compiled with the real isograph_cli and must be accepted (exit 0); from "
        "each, single-fault mutants (pylib/isomut.py: exactly one of undefined field, object field without selection set, "
        "scalar with selection set, undefined argument, missing required argument on scalar/object/client field, "
        "undeclared variable (also inside an object literal, also one that ANOTHER declaration declares), unused variable "
        "(also one whose name another declaration uses), literal of wrong type (also null for "
        "non-null, also inside an object literal), variable of incompatible type (nullability, nullable with a non-null "
        "default while a parent passes null, other scalar, list depth), "
        "duplicate response name (alias equal to another key, same field twice); sites chosen so that no second rule is "
        "broken) are compiled and must be rejected: exit != 0 with a diagnostic. Non-trivial: a mutant whose base project "
        "was accepted; distinct by (fault kind, position kind, mutated declaration text hash).")


def _compile(cli, p, root):
    shutil.rmtree(root, ignore_errors=True)
    p.write(root)
    r = cc.run_cli_timed(cli, root)
    shutil.rmtree(root, ignore_errors=True)
    return r


def first_message(stderr):
    t = cc.ANSI.sub("", stderr)
    m = re.search(r"Error when compiling\.\s*\n\s*\n(.*)", t)
    return (m.group(1) if m else t.strip().split("\n")[-1])[:200]


def _case(spec):
    try:
        seed, profile, cli, root = spec["seed"], spec["profile"], spec["cli"], spec["root"]
        p = isogen.generate(seed, profile)
        out = {"seed": seed, "profile": profile, "valid_ok": None, "mutants": [], "violations": [], "error": None}
        r = _compile(cli, p, root)
        if r.timed_out:
            out["error"] = "watchdog"
            return out
        out["valid_ok"] = r.ok()
        replay = {"generator": "pylib/isogen.py", "profile": profile, "seed": seed}
        if not r.ok():
            if r.panicked() or r.signal:
                out["violations"].append({"rule": "valid-crashed", "signature": "C16/valid-program-crashed-the-compiler(see C08)",
                                          "what": f"{profile}:{seed} crashed: {r.stderr[-200:]}", "witness": {"replay": replay}})
            else:
                msg = first_message(r.stderr)
                out["violations"].append({"rule": "valid-rejected", "signature": "C16/valid-rejected/" + e3.shape_of_error(msg),
                                          "what": f"well-typed program {profile}:{seed} rejected: {msg}",
                                          "witness": {"replay": replay, "stderr": cc.ANSI.sub('', r.stderr)[-1500:]}})
            return out
        rng = random.Random(subseed(seed, "mutants"))
        for q in isomut.single_fault_mutants(p, rng, per_kind=spec.get("per_kind", 1)):
            mr = _compile(cli, q, root)
            m = q.mutation
            rec = {"fault": m["fault"], "position": m["position"], "detail": m["detail"], "rejected": not mr.ok(),
                   "message": first_message(mr.stderr) if not mr.ok() else None,
                   "crashed": bool(mr.panicked() or mr.signal)}
            out["mutants"].append(rec)
            if mr.timed_out:
                out["error"] = "watchdog"
                continue
            if mr.ok():
                out["violations"].append({
                    "rule": "invalid-accepted", "signature": f"C16/invalid-accepted/{m['fault']}",
                    "what": f"{profile}:{seed} mutant [{m['fault']} at {m['position']}: {m['detail']}] compiled without a diagnostic",
                    "witness": {"replay": dict(replay, mutation=m, how="isomut." + m["fault"]), "files": q.files}})
            elif rec["crashed"]:
                out["violations"].append({
                    "rule": "invalid-crashed", "signature": f"C16/crash-instead-of-diagnostic/{m['fault']}",
                    "what": f"{profile}:{seed} mutant [{m['fault']}: {m['detail']}] crashed the compiler: {mr.stderr[-200:]}",
                    "witness": {"replay": dict(replay, mutation=m), "files": q.files}})
            elif not mr.has_diagnostic():
                out["violations"].append({
                    "rule": "rejected-without-diagnostic", "signature": f"C16/rejected-without-diagnostic/{m['fault']}",
                    "what": f"{profile}:{seed} mutant [{m['fault']}] exit {mr.rc} without diagnostic", "witness": {"replay": replay}})
        return out
    except runner.Inconclusive as e:
        return {"error": str(e), "mutants": [], "violations": [], "valid_ok": None}


def run(ctx):
    cli = runner.build_cli()
    n = ctx.pick(100, 6000)
    specs = []
    for prof in ("core", "plain", "keys"):
        for i in range(n):
            seed = subseed(ctx.seed, "c16", prof, i) % (1 << 48)
            specs.append({"seed": seed, "profile": prof, "cli": cli, "root": os.path.join(ctx.work, f"c16-{prof}-{i}"),
                          "per_kind": 1})
    with ProcessPoolExecutor(max_workers=runner.NCPU) as ex:
        results = list(ex.map(_case, specs, chunksize=1))
    errs = [r["error"] for r in results if r.get("error")]
    if len(errs) > max(2, len(results) // 20):
        raise runner.Inconclusive(f"{len(errs)} cases inconclusive, e.g. {errs[0]}")
    v = []
    by_fault = collections.Counter()
    by_pos = collections.Counter()
    rejected = collections.Counter()
    messages = collections.defaultdict(collections.Counter)
    distinct = set()
    valid_ok = sum(1 for r in results if r["valid_ok"])
    samples = []
    for r in results:
        v += r["violations"]
        for m in r["mutants"]:
            by_fault[m["fault"]] += 1
            by_pos[m["position"]] += 1
            if m["rejected"]:
                rejected[m["fault"]] += 1
                messages[m["fault"]][e3.shape_of_error(m["message"] or "")] += 1
            distinct.add((m["fault"], m["position"], m["detail"]))
            if len(samples) < 4 and m["rejected"] and len(samples) == len({s["fault"] for s in samples}) and m["fault"] not in {s["fault"] for s in samples}:
                samples.append({"base": f"{r['profile']}:{r['seed']}", "fault": m["fault"], "position": m["position"],
                                "detail": m["detail"], "compiler_said": m["message"]})
    cov = {"evaluations": valid_ok + sum(by_fault.values()), "distinct_nontrivial": len(distinct), "rule": RULE,
           "samples": samples or [{"note": "no mutant"}],
           "valid_programs": len(results), "valid_programs_accepted": valid_ok,
           "mutants_by_fault": dict(by_fault), "mutants_rejected_by_fault": dict(rejected),
           "mutants_by_position": dict(by_pos),
           "fault_kinds_never_generated": [f.__name__[2:] for f in isomut.FAULTS if not any(
               k.startswith(f.__name__[2:].replace("_", "-")[:12]) for k in by_fault)],
           "diagnostic_shapes_by_fault": {k: dict(c.most_common(3)) for k, c in messages.items()}}
    return runner.finish(ctx, LEVEL, cov, v, assumptions=[
        "the generator's type discipline (pylib/isogen.py) defines 'well typed'; the mutators (pylib/isomut.py) define each fault",
        "a rejection is exit status != 0 plus diagnostic text; the wording is recorded, not matched",
    ])


def replay(ctx, path):
    return run(ctx)
