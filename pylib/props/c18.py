"""C18 - after a successful compile the artifact directory equals the artifacts."""
import collections
import time

import fsops_common as fc
import runner

LEVEL = "exploration"
RULE = (
    "Leg A (in-process, harness/iso_tools `fsops sets`): seeded sessions of 1-5 random artifact sets (root files, nested "
    "Type/field/file artifacts, entities/selectables/files added and removed, empty and root-only sets, changed and unchanged "
    "contents, prefix-related names) are written through the real planning/apply code (isograph_compiler::verif re-exports: "
    "write_artifacts_to_disk, or get_file_system_operations+apply_file_system_operations to see the operation list) with one "
    "persistent Option<FileSystemState> per session into a real directory whose initial content is arbitrary (missing, missing "
    "parent, empty, stale artifacts, foreign files/directories, a file where a directory is needed, a directory where a file is "
    "needed, symlinks to the outside, the artifact path being a file). After every successful write the walked tree is compared "
    "with the artifact set (extra file, missing file, different bytes, stray empty directory, leftover symlink) and, for later "
    "writes, no unchanged artifact may be planned as WriteFile or change inode/mtime (all files are aged before each write). "
    "Leg B (in-process): generated projects (isogen core/plain) with 5 source versions (remove all client fields, remove an "
    "entity's last selectable, add/remove/alter fields, move, reformat) run through the real CompilerState + update_sources + "
    "compile session API over hostile initial directories; expected = get_artifact_path_and_content of the same database; the "
    "final directory is cross-checked against the real CLI compiling the same sources elsewhere. Leg C (hook-free): the real "
    "isograph_cli over hostile/stale directories, expected = the CLI compiling the same sources into a fresh directory. "
    "Non-trivial: a session whose first write meets a non-empty directory, or that has a later write which changes the set while "
    "keeping >=1 artifact unchanged; distinct by case fingerprint (artifact-set sequence + initial content / project seed).")


def run(ctx):
    tool = fc.build_tool()
    cli = runner.build_cli()
    scratch = fc.Scratch(ctx)
    try:
        t = [time.time()]
        a = fc.run_sets(ctx, tool, scratch, "c18", ctx.pick(20000, 500000), "c18a", max_steps=5)
        t.append(time.time())
        b = fc.run_projects(ctx, tool, cli, scratch, ctx.pick(240, 3000), "c18b", c19=False, nversions=5)
        t.append(time.time())
        c = fc.run_cli_cases(ctx, cli, scratch, ctx.pick(60, 700), "c18c", "C18")
        t.append(time.time())
    finally:
        scratch.cleanup()
    v = fc.violations_from("C18", a["findings"], "sets") + fc.violations_from("C18", b["findings"], "session")
    cli_stats = collections.Counter()
    cli_fps = set()
    samples = a["samples"][:2]
    for r in c:
        v += r["violations"]
        cli_stats.update(r["stats"])
        if r["nontrivial"]:
            cli_fps.add(r["fingerprint"])
        if r["sample"] and len(samples) < 4 and r["nontrivial"]:
            samples.append(r["sample"])
    bad_cross = [x for x in b["cross"] if not x["ok"] or x["diffs"]]
    if bad_cross and not v:
        raise runner.Inconclusive(f"in-process session and real CLI disagree for the same sources ({len(bad_cross)} cases), e.g. {bad_cross[0]}")
    b_nontrivial = {x["id"] for x in b["cases"] if sum(1 for ok in x["valid"] if ok) >= 2}
    for x in b["cases"]:
        if x["id"] in b_nontrivial and len(samples) < 5:
            spec = b["specs"][x["id"]]
            samples.append({"project": x["id"], "versions": spec["labels"], "compiled": x["valid"], "write_primitives": x["prims"],
                            "initial_root": spec["initial_root"], "initial": [f"{e['kind']} {e['path']}" for e in spec["initial"]][:12]})
            break
    cov = {
        "evaluations": a["cases"] + len(b["cases"]) + len(c),
        "distinct_nontrivial": len(a["fps"]) + len(b_nontrivial) + len(cli_fps),
        "rule": RULE,
        "samples": samples,
        "leg_a_sessions": a["cases"], "leg_a_nontrivial": len(a["fps"]), "leg_a_observed": a["stats"],
        "leg_a_file_systems": dict(a["file_systems"]),
        "leg_b_projects": len(b["cases"]), "leg_b_nontrivial": len(b_nontrivial), "leg_b_observed": b["stats"],
        "leg_b_cli_cross_checks_equal": len(b["cross"]), "leg_b_tool_errors": len(b["errors"]),
        "leg_b_version_kinds": dict(collections.Counter(l for s in b["specs"].values() for l in s["labels"])),
        "leg_wall_s": [round(t[i + 1] - t[i], 1) for i in range(3)],
        "leg_c_projects": len(c), "leg_c_nontrivial": len(cli_fps), "leg_c_observed": dict(cli_stats),
    }
    return runner.finish(ctx, LEVEL, cov, v, assumptions=[
        "entity/selectable names never collide with root artifact file names (root files contain a dot, GraphQL names cannot)",
        "nothing else edits the directory during a session (the harness only ages mtimes between writes)",
        "an artifact path that is itself a regular file makes the compile report an error; counted as refused, not as a violation",
        "in-process legs need the cfg(isographlabs_isograph_verif) re-exports; leg C and the final cross-check use only the real CLI",
        "tmpfs (/dev/shm) and the disk file system are both used as targets; fault-free I/O",
    ])


def replay(ctx, path):
    return run(ctx)
