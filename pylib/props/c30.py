"""C30 - isograph's schema parser (crates/graphql_schema_parser) reads the schema the specification defines.

Supported subset (what parse_schema / parse_schema_extensions are written to read), as a grammar over the
June 2018 productions:

    BaseDocument       : TypeSystemDefinition+                                  (parse_schema)
    ExtensionDocument  : ( TypeSystemDefinition | ObjectTypeExtension )+        (parse_schema_extensions)
    TypeSystemDefinition : SchemaDefinition | ScalarTypeDefinition | ObjectTypeDefinition | InterfaceTypeDefinition
                         | UnionTypeDefinition | EnumTypeDefinition | InputObjectTypeDefinition | DirectiveDefinition
    ObjectTypeExtension  : extend type Name ImplementsInterfaces? Directives[Const]? FieldsDefinition
                         | extend type Name ImplementsInterfaces? Directives[Const]
                         | extend type Name ImplementsInterfaces
    SchemaDefinition     : schema Directives[Const]? { OperationTypeDefinition+ }   with every OperationType at most once
  every other production (Description, FieldsDefinition, ArgumentsDefinition, InputValueDefinition, DefaultValue,
  Value[Const] incl. block strings, Type, Directives[Const], UnionMemberTypes, EnumValuesDefinition,
  DirectiveLocations) exactly as in the specification.
Outside the subset (either verdict is fine, counted as `outside-subset-*`): SchemaExtension and the scalar /
interface / union / enum / input extensions, any extension in the base document, a root operation type given
twice.  Documents only a post-2018 grammar accepts are counted as `post2018-*` and not judged.

Oracles: construction (AST first) + gqlref; relay's parse_schema_document gives a third, code-independent
accept/reject opinion whose agreement with gqlref is recorded in the evidence.
"""
import os

import runner
import gql_common as gc
from props import c29

LEVEL = "exploration"
RULE = ("seeded SDL documents inside isograph's supported subset: 60% built AST-first and printed with random insignificant "
        "tokens (expected tree known by construction), 30% token-level mutations, 10% lexical/structural edge snippets judged by "
        "gqlref; parse_schema (base documents) and parse_schema_extensions (definitions + `extend type`) run on each and the "
        "GraphQLTypeSystemDocument compared. Non-trivial: a constructed document both sides accept with a description, a "
        "block string, a string escape, a default value or a directive. Counted per document.")
ISO_FEATURES = [f for f in c29.ALL_FEATURES if f not in (
    "alias", "fragment-spread", "inline-fragment", "shorthand-query", "variable-definitions", "variable-default",
    "fragment-definition", "extend-schema", "extend-scalar", "extend-interface", "extend-union", "extend-enum", "extend-input")]
ALL_VERDICTS = c29.ALL_VERDICTS + ["outside-subset-accept", "outside-subset-reject"]


def run(ctx):
    tool = os.environ.get("VERIF_GQL_TOOL")     # validation aid: a gql_tools built from a mutated copy of /repo
    if not tool:
        tool = os.path.join(runner.cargo_build(["gql_tools"]), "gql_tools")
    gc.TOOL = tool
    n = ctx.pick(10_000, 500_000)
    jobs_plan = [("iso-base", "iso-schema", n), ("iso-ext", "iso-extension", n)]
    reports = c29_run_shards(ctx, jobs_plan, tool)
    targets = {"iso-schema": gc.Target("C30", "iso-base", "iso-schema"),
               "iso-extension": gc.Target("C30", "iso-ext", "iso-extension")}
    violations = []
    known = {k["signature"] for k in runner.load_known() if k.get("property") == "C30"}
    for mode, rep in sorted(reports.items()):
        violations += gc.violations_from(targets[mode], rep, known=known)
    harness = [v for v in violations if v["rule"] == "harness"]
    if harness:
        raise runner.Inconclusive("reference implementation disagrees with the construction oracle: "
                                  + harness[0]["what"][:300])
    feats, verdicts, observed = {}, {}, {}
    docs = nontrivial = 0
    samples = []
    for mode, rep in sorted(reports.items()):
        docs += rep["documents"]
        nontrivial += rep["nontrivial"]
        samples += rep["samples"][:2]
        for k, v in rep["features"].items():
            feats[k] = feats.get(k, 0) + v
        for k, v in rep["verdicts"].items():
            verdicts[k] = verdicts.get(k, 0) + v
        observed[mode] = {"documents": rep["documents"], "by_origin": rep["by_origin"],
                          "mutation_ops": rep["mutation_ops"], "slowest_shard_s": rep["seconds"],
                          "relay_second_opinion": rep.get("second_opinion")}
    cov = {
        "evaluations": docs,
        "distinct_nontrivial": nontrivial,
        "rule": RULE,
        "samples": samples[:5],
        "verdicts": verdicts,
        "features_in_constructed_documents": feats,
        "per_entry_point": observed,
        "unexercised": {"features": [f for f in ISO_FEATURES if not feats.get(f)],
                        "verdict_categories": [v for v in ALL_VERDICTS if not verdicts.get(v)],
                        "not_comparable": ["int and float default values are kept as i64 / f64: compared by value, the lexeme is not observable",
                                           "whether a string was a block string is not kept in GraphQLConstantValue / DescriptionValue"]},
    }
    return runner.finish(ctx, LEVEL, cov, violations, assumptions=[
        "the supported subset is the grammar in this file's docstring; documents outside it are counted, not judged",
        "valid SDL = accepted by the June 2018 grammar (gqlref) and no root operation type given twice; documents only a later grammar accepts are not judged",
        "gqlref is trusted: spec-transcribed, agrees with the construction oracle on every constructed document of this run",
        "isograph shares relay's lexer, so relay's opinion is independent for the grammar only; lexing is covered by construction + gqlref",
    ])


def c29_run_shards(ctx, plan, tool):
    import json
    import sys
    jobs = []
    for doc_kind, mode, total in plan:
        per = max(1, total // runner.NCPU)
        for i in range(runner.NCPU):
            jobs.append({"pid": "C30", "doc_kind": doc_kind, "mode": mode, "count": per, "tool": tool,
                         "second_opinion": "relay-schema", "seed": runner.subseed(ctx.seed, "C30", mode, i)})

    def one(job):
        rc, out, err = runner.sh([sys.executable, os.path.join(runner.VERIF, "pylib", "gql_common.py"), "shard",
                                  json.dumps(job)], timeout=7200)
        try:
            res = json.loads(out.strip().split("\n")[-1])
        except (ValueError, IndexError):
            raise runner.Inconclusive("shard died: rc=%s %s" % (rc, err[-600:]))
        if "tool_error" in res:
            raise runner.Inconclusive("gql_tools: " + res["tool_error"])
        return job["mode"], res["report"]
    by_mode = {}
    for mode, rep in runner.run_shards(jobs, one):
        by_mode.setdefault(mode, []).append(rep)
    return {m: gc.merge_reports(rs) for m, rs in by_mode.items()}


def replay(ctx, path):
    return run(ctx)
