"""C12 - response keys are unique per field+arguments and agree with the runtime."""
import collections

import e3
import rt_common
import runner

LEVEL = "exploration"
RULE = ("(a) static: in every operation of generated projects (profiles args / keys / rt_text) and the checked-in projects, within "
        "one selection set two selections get the same response key exactly when they select the same field with the same "
        "canonical arguments, and every key is a GraphQL Name; (b) dynamic: for every normalization AST node of every entrypoint "
        "and refetch query the key the REAL runtime looks up (observed by a Proxy response during the real normalizeData of that "
        "node in node 22) equals the alias the compiler printed for the same (field, arguments) in the operation text; "
        "(c) micro-workload (profile args): one field selected with many adversarial argument lists (strings differing only in "
        "non-[A-Za-z0-9_] characters, escapes, BMP non-ASCII, empty, underscores that imitate the separators, negative and large "
        "ints, true/null, objects with reordered keys and nested variables, same value via variable and literal, enum and custom "
        "scalar via variables); each list is fed to the runtime key function through a synthetic normalization AST node built "
        "independently of the compiler and to the compiler through the generated program, and the keys are compared; "
        "(d) C11 dynamic half: the Proxy also checks that normalizeData looks up every key the response contains and nothing "
        "else (signatures C11dyn/...). Non-trivial: a selection with arguments whose key was compared; distinct by key / "
        "argument list.")


def _leaves(args, path=()):
    out = []
    for name, v in args:
        if v[0] == "obj":
            out += _leaves(v[1], path + (name,))
        else:
            out.append((path + (name,), v[0], v[1] if len(v) > 1 else None))
    return out


def collision_cause(a, b):
    """Why two different (field, arguments) got the same key: the minimal differing element, not the case."""
    import json
    import re
    try:
        fa, fb = json.loads(a), json.loads(b)
    except ValueError:
        return "unknown"
    if fa[0] != fb[0]:
        return "different-fields"
    la, lb = _leaves(fa[1]), _leaves(fb[1])
    if [(x[0], x[1]) for x in la] == [(x[0], x[1]) for x in lb]:
        diff = [(x, y) for x, y in zip(la, lb) if x[2] != y[2]]
        if diff and all(x[1] == "str" and re.sub(r"[^A-Za-z0-9_]", "_", x[2]) == re.sub(r"[^A-Za-z0-9_]", "_", y[2]) for x, y in diff):
            return "strings-that-differ-only-in-non-word-characters"
        return "values-of-kind-" + "+".join(sorted({x[1] for x, _y in diff}))
    return "string-that-imitates-the-key-structure"


def resign_static(violations):
    for v in violations:
        if v["signature"].startswith("C12/same-key-for-different-field-or-arguments/"):
            w = v["witness"]
            v["signature"] = "C12/same-key-for-different-field-or-arguments/" + collision_cause(w.get("a", ""), w.get("b", ""))
    return violations


def run(ctx):
    cli = runner.build_cli()
    rt_common.configure(ctx, ctx.pick(2, 3))
    analyzers = [("e3_oracles", "analyze_c12_static"), ("rt_common", "analyze_c12_dynamic"), ("rt_common", "analyze_c11_dynamic")]
    results = e3.run_cases(ctx, cli, ["keys", "rt_text"], ctx.pick(20, 1000), "c12", analyzers)
    # 120 argument lists per program: 90 programs = ~10^4 lists (quick), 900 = ~10^5 (thorough)
    micro = e3.run_cases(ctx, cli, ["args_big"], ctx.pick(90, 900), "c12m", analyzers + [("rt_common", "analyze_c12_micro")],
                         with_checked_in=False)
    results += micro
    st = e3.aggregate(results, "e3_oracles.analyze_c12_static", "keys")
    dy = e3.aggregate(results, "rt_common.analyze_c12_dynamic", "keys")
    mi = e3.aggregate(micro, "rt_common.analyze_c12_micro", "lists")
    c11 = e3.aggregate(results, "rt_common.analyze_c11_dynamic", "distinct")
    v = resign_static(st["violations"]) + dy["violations"] + mi["violations"] + c11["violations"]
    # one witness per signature is enough in the evidence; keep counts
    cov = {"evaluations": len(results), "distinct_nontrivial": min(x for x in (st["distinct"], dy["distinct"]) if x is not None),
           "rule": RULE, "samples": (mi["samples"][:2] + dy["samples"][:2]) or [{"note": "no sample"}],
           "successful_compiles": st["ok"],
           "static": st["stats"], "runtime_keys": dy["stats"], "micro_workload": dict(mi["stats"], distinct_argument_lists=mi["distinct"]),
           "c11_dynamic": c11["stats"]}
    generated = sum(1 for r in results if str(r.get("cid", "")).split(":")[0] != "checked-in")
    if generated and st["ok"] < 0.5 * generated:
        # the generators produce programs the unchanged compiler accepts; if most are rejected (or crash, which is C08's
        # subject) there is nothing to observe
        raise runner.Inconclusive("only %d of %d generated programs compiled" % (st["ok"], generated))
    return runner.finish(ctx, LEVEL, cov, v, assumptions=[
        "the runtime key function (getNetworkResponseKey, not exported) is observed through the keys the real normalizeData "
        "looks up on a Proxy response for a one-node normalization AST",
        "characters outside the Basic Multilingual Plane cannot be written in an iso literal (the iso lexer rejects them), so the "
        "Rust-chars vs UTF-16-units difference in the key functions cannot be reached through the compiler; they are fed to the "
        "runtime only",
        "enum and list literals cannot be written in iso literals; enums and custom scalars reach the keys through variables",
        "operation text parsed by pylib/gqlref.py; canonical arguments = name order as written, object fields in written order",
    ])


def replay(ctx, path):
    return run(ctx)
