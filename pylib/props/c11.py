"""C11 - normalization ASTs describe exactly the operation they accompany."""
import e3
import runner

LEVEL = "exploration"
RULE = ("generated projects (core/keys/text profiles) + checked-in projects compiled with the real CLI; for every entrypoint "
        "and every refetch query the selection tree of the operation text (parsed by the reference GraphQL parser) is "
        "compared with the normalization AST shipped with it: same multiset of (field, canonical arguments) and inline "
        "fragments per level, Linked vs Scalar agreeing with the presence of a subselection, concreteType non-null exactly "
        "when the schema type of the field is an object type. Non-trivial: operation with >=1 linked field; distinct by "
        "operation text hash.")


def run(ctx):
    cli = runner.build_cli()
    n = ctx.pick(80, 5000)
    results = e3.run_cases(ctx, cli, ["core", "keys", "text"], n, "c11", [("e3_oracles", "analyze_c11")])
    a = e3.aggregate(results, "e3_oracles.analyze_c11", "ops")
    cov = {"evaluations": len(results), "distinct_nontrivial": min(a["nontrivial"], a["distinct"]) if a["distinct"] else a["nontrivial"],
           "rule": RULE, "samples": a["samples"] or [{"note": "no generated sample"}], "successful_compiles": a["ok"], "observed": a["stats"]}
    return runner.finish(ctx, LEVEL, cov, a["violations"], assumptions=[
        "operation text is parsed by pylib/gqlref.py; the schema kind of a field's type comes from the project's schema files",
        "the dynamic half of the statement (the runtime normalizes every returned field / looks up nothing else) is observed in C10/C12 runs",
    ])


def replay(ctx, path):
    return run(ctx)
