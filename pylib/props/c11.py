"""C11 - normalization ASTs describe exactly the operation they accompany."""
import e3
import runner

LEVEL = "exploration"
RULE = ("generated projects (core/keys/text profiles) + checked-in projects compiled with the real CLI; for every entrypoint "
        "and every refetch query the selection tree of the operation text (parsed by the reference GraphQL parser) is "
        "compared with the normalization AST shipped with it: same multiset of (field, canonical arguments) and inline "
        "fragments per level, Linked vs Scalar agreeing with the presence of a subselection, concreteType non-null exactly "
        "when the schema type of the field is an object type; plus the dynamic half: the real runtime normalizeData on generated "
        "responses behind a recording Proxy must look up every key the response has and no other. Non-trivial: operation with >=1 linked field; distinct by "
        "operation text hash.")


def run(ctx):
    cli = runner.build_cli()
    n = ctx.pick(80, 5000)
    results = e3.run_cases(ctx, cli, ["core", "keys", "text"], n, "c11", [("e3_oracles", "analyze_c11")])
    a = e3.aggregate(results, "e3_oracles.analyze_c11", "ops")
    # dynamic half of the statement ("the runtime normalizes every field the server returns and never looks for a field
    # the operation did not request"): the REAL normalizeData runs on generated conforming responses wrapped in a recording
    # Proxy (node/runtime.mjs, pylib/rt_common.py); keys looked up vs keys present, per response object
    import rt_common
    rt_common.configure(ctx, ctx.pick(2, 3))
    dres = e3.run_cases(ctx, cli, ["rt", "core"], ctx.pick(25, 1500), "c11d", [("rt_common", "analyze_c11_dynamic")])
    dyn = e3.aggregate(dres, "rt_common.analyze_c11_dynamic", "distinct")
    for v in dyn["violations"]:
        if "(see C12)" in v["signature"]:
            continue  # a key disagreement is C12's subject (and listed there)
        v = dict(v, signature=v["signature"].replace("C11dyn/", "C11/dynamic/", 1))
        a["violations"].append(v)
    cov = {"evaluations": len(results), "distinct_nontrivial": min(a["nontrivial"], a["distinct"]) if a["distinct"] else a["nontrivial"],
           "rule": RULE, "samples": a["samples"] or [{"note": "no generated sample"}], "successful_compiles": a["ok"], "observed": a["stats"],
           "dynamic_half": dict(dyn["stats"], programs=len(dres))}
    return runner.finish(ctx, LEVEL, cov, a["violations"], assumptions=[
        "operation text is parsed by pylib/gqlref.py; the schema kind of a field's type comes from the project's schema files",
        "dynamic half: responses are generated from the operation text by pylib/rt_common.py; key disagreements between compiler and runtime are C12's subject",
    ])


def replay(ctx, path):
    return run(ctx)
