"""C01 - memoized results always equal a from-scratch evaluation (pico)."""
import pico_common as pc
import runner

LEVEL = "exploration"
RULE = ("seeded random histories (<=40 ops; set/remove/singletons/tracked insert+remove/calls of 18 memo fns/"
        "intern/retain/GC; scripted hostile snippets) run on the real pico; after every top-level call and for every "
        "nested call/read inside bodies the memoized value is compared with a pure twin on a model. "
        "Non-trivial: a node is called twice with a different from-scratch value in between. Distinct by history seed.")


def run(ctx):
    n = ctx.pick(400_000, 24_000_000)
    rep = pc.run_native(ctx, "general", n, samples=2)
    rep2 = pc.run_native(ctx, "gc", n // 4, samples=1)
    pc._merge(rep, rep2)
    rep.setdefault("crashes", []).extend(rep2.get("crashes", []))
    v = pc.violations_for("C01", rep)
    if rep.get("crashes"):
        raise runner.Inconclusive(f"pico_mon died {len(rep['crashes'])} time(s); see C03")
    cov = {
        "evaluations": rep["histories"],
        "distinct_nontrivial": rep["nontrivial_c01"],
        "rule": RULE,
        "samples": rep["samples"][:3],
        "observed": pc.stats_subset(rep, ["ops", "top_calls", "nested_deps_checked", "executions", "events",
                                          "changed_between_calls", "absent_then_written", "gcs", "equal_writes"]),
    }
    return runner.finish(ctx, LEVEL, cov, v, assumptions=[
        "one rich test program stands for 'all programs'; 64-bit hash collisions of params are out of scope",
        "the program follows pico's documented usage contracts (no SourceId use after removal, tracked() for iteration)",
    ])


def replay(ctx, path):
    return run(ctx)
