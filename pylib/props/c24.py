"""C24 - each iso literal resolves to its own generated overload.

Oracle (per accepted program): iso.ts is read from the artifact directory; the type-level definitions it
contains (WhitespaceCharacter, Whitespace<In>, MatchesWhitespaceAndString) are read from the file and must be of
the modelled shape (otherwise the case is inconclusive); the overload list is taken in source order with each
overload's pattern string and the declaration its parameter / return type refers to (through the import of
`<Type>__<name>__param` from ./<Type>/<name>/param_type or of `entrypoint_<Type>__<name>` from
.../<Type>/<name>/entrypoint).  Every iso literal of the project's source files (found with the compiler's own
extraction regex, text between the backticks exactly as in the file, then cooked the way TypeScript cooks a
template literal: CRLF -> LF) must (1) have an overload and (2) be matched FIRST by an overload of its own
declaration."""
import collections
import hashlib
import os

import runner
import ts_types

LEVEL = "exploration"
RULE = ("seeded isogen projects, profile `names` (type and field names that are prefixes of one another on the same and on "
        "different types: Foo, FooBar, Foo_, FooBarBaz, F, Fo, field, entrypointX; a `prefix-dense` variant renames the client "
        "fields of each type to a chain Foo/FooBar/Foo_/FooBarBaz/F/Fo/FooB/Foo_1/Foo1/Foo10; every entrypoint shares Type.name "
        "with a field) and `core`, post-processed with header whitespace variety (one space, several spaces, tab, space+tab, newline, newline+indent, "
        "CRLF, form feed between keyword and Type.field; whitespace around the dot; leading whitespace before `entrypoint`; "
        "whole files converted to CRLF line endings), plus the four checked-in projects; each is compiled with the real "
        "isograph_cli and, when accepted, every iso literal text in its source files is resolved against the overload list "
        "parsed from the generated iso.ts using the Whitespace / MatchesWhitespaceAndString definitions read from that same "
        "file. Non-trivial: accepted program in which resolution is contested: some overload pattern is a proper prefix of "
        "another one, or a literal has non-canonical header/leading whitespace; "
        "distinct by (sorted overload patterns, whitespace kinds) fingerprint.")


def _prefix_relation(first, own_patterns):
    for p in own_patterns:
        if p != first["pattern"] and p.startswith(first["pattern"]):
            return "shorter-prefix-name-listed-first"
    return "unrelated-pattern"


def analyze(c, spec):
    out = {"violations": [], "stats": {}, "nontrivial": False, "sample": None, "fp": None}
    st = collections.Counter()
    if not c.result.ok():
        st["programs_rejected_by_compiler"] += 1
        out["stats"] = dict(st)
        out["rejected"] = c.result.stderr[-300:]
        return out
    import cli_common as cc
    adir = c.artifact_dir()
    try:
        with open(os.path.join(adir, "iso.ts"), encoding="utf-8") as f:
            iso_text = f.read()
    except OSError:
        out["violations"].append({"rule": "missing-iso-ts", "signature": "C24/iso.ts-not-generated",
                                  "what": f"{c.cid}: accepted program without __isograph/iso.ts",
                                  "witness": {"case": c.describe(), "replay": ts_types.replay_of(c)}})
        return out
    iso = ts_types.IsoTs(iso_text)
    if iso.model is None:
        raise runner.Inconclusive(f"iso.ts of {c.cid} does not contain the modelled type-level definitions: {iso.model_problems[:2]}")
    if iso.model_problems:
        raise runner.Inconclusive(f"iso.ts of {c.cid}: overload not of the modelled shape: {iso.model_problems[:2]}")
    st["accepted_programs"] += 1
    st["overloads_parsed"] += len(iso.overloads)
    st["ws_model:" + "".join({" ": "SP", "\t": "TAB", "\n": "LF"}.get(x, repr(x)) + "|" for x in iso.ws_chars)] += 1
    for o in iso.overloads:
        st["overload_return:" + str(o["return_shape"])] += 1
        if o["target"] is None:
            out["violations"].append({"rule": "overload-without-declaration", "signature": "C24/overload-refers-to-no-declaration",
                                      "what": f"{c.cid}: overload '{o['pattern']}' mentions no __param / entrypoint import",
                                      "witness": {"case": c.describe(), "overload": o, "replay": ts_types.replay_of(c)}})
    cfg = cc.read_config(c.root)
    lits = ts_types.scan_literals(c.root, os.path.join(c.root, cfg["project_root"]), adir)
    decl_lits = [l for l in lits if l["header"] is not None]
    st["literals_without_declaration_header"] += len(lits) - len(decl_lits)
    if c.project is not None:
        want = sorted((d.kind, d.parent, d.name) for d in c.project.decls)
        got = sorted((l["header"]["kind"], l["header"]["parent"], l["header"]["name"]) for l in decl_lits)
        if want != got:
            raise runner.Inconclusive(f"literal scanner and intent model disagree for {c.cid}: {want[:3]} vs {got[:3]}")
    pats = [o["pattern"] for o in iso.overloads]
    prefix_pairs = sum(1 for a in pats for b in pats if a != b and b.startswith(a))
    st["overload_pattern_prefix_pairs"] += prefix_pairs
    names = collections.Counter((l["header"]["parent"], l["header"]["name"]) for l in decl_lits)
    same_name = sum(1 for v in names.values() if v > 1)
    st["entrypoint_literal_next_to_field_literal_of_same_name"] += same_name
    kinds = set()
    contested = prefix_pairs > 0
    for l in decl_lits:
        h = l["header"]
        st["literals"] += 1
        st["literal_kind:" + h["kind"]] += 1
        cooked = ts_types.cook_template(l["raw"])
        if cooked is None:
            st["literals_with_escape_or_substitution(not modelled)"] += 1
            continue
        ws = h["ws_kind"]
        kinds.add(ws)
        st[f"header_ws:{ws}:literals"] += 1
        st[f"leading_ws:{h['leading_kind']}:literals"] += 1
        if "\r\n" in l["raw"]:
            st["literals_with_crlf_line_endings"] += 1
        if ws != "single-space" or h["leading_kind"] not in ("none", "newline", "single-space"):
            contested = True
        own = [o for o in iso.overloads if ts_types.overload_is_for(o, h["kind"], h["parent"], h["name"])]
        wit = {"case": c.describe(), "file": l["file"], "literal_text": l["raw"][:300], "declaration": [h["kind"], h["parent"], h["name"]],
               "overload_patterns_in_order": pats[:40], "replay": ts_types.replay_of(c)}
        if not own:
            out["violations"].append({"rule": "missing-overload", "signature": f"C24/missing-overload/{h['kind']}",
                                      "what": f"{c.cid}: no overload in iso.ts for {h['kind']} {h['parent']}.{h['name']}", "witness": wit})
            st["literals_without_overload"] += 1
            continue
        first = iso.first_match(cooked)
        if first is None:
            # shrink: normalise the header (one space, no whitespace around the dot) and see whether that alone repairs it
            canon = f"{h['kind']} {h['parent']}.{h['name']}"
            if own[0]["pattern"] == canon and ws != "single-space":
                cause = f"header-whitespace:{ws}"
            elif any(ch not in iso.ws_chars for ch in ts_types.cook_template(h["leading"]) or ""):
                cause = f"leading-whitespace:{h['leading_kind']}"
            else:
                cause = "pattern-is-not-the-canonical-header"
            st[f"header_ws:{ws}:matched-no-overload"] += 1
            out["violations"].append({"rule": "no-overload-matches", "signature": f"C24/no-overload-matches/{cause}",
                                      "what": f"{c.cid}: accepted literal {cooked.strip()[:50]!r} ({l['file']}) matches no overload; its own is '{own[0]['pattern']}'",
                                      "witness": wit})
            continue
        if ts_types.overload_is_for(first, h["kind"], h["parent"], h["name"]):
            st["literals_resolved_to_own_overload"] += 1
            st[f"header_ws:{ws}:resolved-to-own"] += 1
            if first["index"] > 0 and any(first["pattern"].startswith(p) for p in pats[first["index"] + 1:] if p != first["pattern"]):
                st["literals_whose_own_overload_precedes_a_shorter_prefix"] += 1
        else:
            rel = _prefix_relation(first, [o["pattern"] for o in own])
            out["violations"].append({"rule": "wrong-overload-first", "signature": f"C24/wrong-overload-first/{rel}:{h['kind']}",
                                      "what": f"{c.cid}: literal of {h['kind']} {h['parent']}.{h['name']} is first matched by overload #{first['index']} '{first['pattern']}' (own: '{own[0]['pattern']}' at #{own[0]['index']})",
                                      "witness": dict(wit, first_match=first)})
            st["literals_resolved_to_foreign_overload"] += 1
    out["stats"] = dict(st)
    out["nontrivial"] = contested and st["literals"] > 0
    out["fp"] = hashlib.sha1(repr((sorted(pats), sorted(kinds))).encode()).hexdigest()[:12]
    if c.kind == "generated" and contested:
        out["sample"] = {"case": c.describe(), "overload_patterns_in_order": pats[:12], "header_ws_kinds": sorted(kinds),
                         "prefix_pairs": prefix_pairs, "literals": st["literals"],
                         "resolved_to_own": st["literals_resolved_to_own_overload"]}
    return out


def run(ctx):
    cli = os.environ.get("VERIF_CLI_OVERRIDE") or runner.build_cli()   # override: development aid (mutation tests on a scratch copy)
    hw = {"header_ws": True}
    dense = {"prefix_dense": True, "opts": {"header_ws": False, "max_decls": 10, "max_types": 3}}
    dense_ws = {"prefix_dense": True, "header_ws": True, "opts": {"header_ws": False, "max_decls": 10, "max_types": 3}}
    # > 20 declarations over several parent types: the order of the overload list then also depends on the stability of
    # the sort (std's unstable sort is an insertion sort, i.e. stable, up to 20 elements)
    # (max_depth 2 keeps the compile of such a project fast: with deeper nesting a 40-declaration project takes ~1 min)
    dense_big = {"prefix_dense": True, "opts": {"header_ws": False, "max_decls": 44, "max_types": 4, "max_depth": 2}}
    plan = [("names", dense, ctx.pick(200, 10000)), ("names", dense_big, ctx.pick(40, 4000)), ("names", dense_ws, ctx.pick(120, 6000)), ("names", hw, ctx.pick(120, 5000)),
            ("core", hw, ctx.pick(40, 1500)), ("core", None, ctx.pick(40, 1500))]
    import isogen
    if hasattr(isogen.Generator, "make_pointer"):      # generator option added later by the runtime engine: client pointer declarations
        ptr = {"prefix_dense": True, "opts": {"header_ws": False, "max_decls": 8, "max_types": 3, "pointers": True, "force_ids": True}}
        plan.append(("names", ptr, ctx.pick(60, 3000)))
    results = ts_types.run_cases(ctx, cli, plan, "c24", [("props.c24", "analyze")], with_checked_in=True, probe=False)
    key = "props.c24.analyze"
    violations, stats, samples, fps = [], collections.Counter(), [], set()
    accepted = nontrivial = 0
    rejected_examples = []
    for r in results:
        a = r["results"].get(key)
        if not a:
            continue
        violations += a["violations"]
        stats.update(a["stats"])
        if r.get("ok"):
            accepted += 1
        elif len(rejected_examples) < 2 and r.get("stderr_head"):
            rejected_examples.append({"case": r["cid"], "stderr": r["stderr_head"][:200]})
        if a["nontrivial"]:
            nontrivial += 1
            fps.add(a["fp"])
        if a.get("sample") and len(samples) < 3:
            samples.append(a["sample"])
    if accepted < len(results) * 0.5:
        raise runner.Inconclusive(f"only {accepted}/{len(results)} programs were accepted by the compiler: {rejected_examples}")
    cov = {"evaluations": len(results), "distinct_nontrivial": len(fps), "rule": RULE,
           "samples": samples or [{"note": "no contested generated program"}],
           "accepted_programs": accepted, "contested_programs": nontrivial,
           "observed": dict(sorted(stats.items())), "rejected_examples": rejected_examples}
    return runner.finish(ctx, LEVEL, cov, violations, assumptions=[
        "no TypeScript checker offline: overload resolution is modelled as 'first overload in source order whose parameter type "
        "accepts the literal type'; T is inferred as the literal's string type",
        "the two type-level definitions are read from the generated iso.ts and must equal the modelled shape "
        "(Whitespace<In> strips one leading WhitespaceCharacter repeatedly; MatchesWhitespaceAndString<S,T> holds iff the "
        "stripped text starts with S); a different shape makes the case inconclusive, never a violation",
        "a no-substitution template literal's type is its cooked value (CRLF and CR become LF); literals containing a "
        "backslash or ${ are counted but not resolved",
        "literals are found with the compiler's own extraction regex (isograph_literals.rs) in .ts/.tsx/.js/.jsx files",
    ])


def replay(ctx, path):
    return run(ctx)
