"""C09 - every generated operation is valid GraphQL for the schema."""
import collections

import e3
import gqlref
import runner

LEVEL = "exploration"
RULE = ("generated projects (profiles core/text/keys: literal, variable, null, object arguments, negative ints, hostile "
        "strings, nested variables, abstract types with asFoo refinements, loadable client fields, __refetch) + the four "
        "checked-in projects are compiled with the real isograph_cli; every operation string, as node evaluates it from "
        "the artifact (entrypoint query_text and each refetch query text), is parsed and validated (spec section 5) by "
        "[also for any single-fault mutant of such a project that the compiler accepts] "
        "the reference implementation pylib/gqlref.py against the project's schema. Non-trivial: a successfully compiled "
        "project with >=1 operation that has arguments or variables; distinct by operation text hash.")


def operation_subjects(doc):
    c = collections.Counter()

    def walk(sels):
        for s in sels:
            if s["kind"] == "Field":
                c["fields"] += 1
                if s["alias"]:
                    c["aliases"] += 1
                c["arguments"] += len(s["arguments"])
                for a in s["arguments"]:
                    c["arg:" + a["value"]["kind"]] += 1
                if s["selectionSet"]:
                    walk(s["selectionSet"])
            elif s["kind"] == "InlineFragment":
                c["inline_fragments"] += 1
                walk(s["selectionSet"])
    for d in doc["definitions"]:
        if d["kind"] == "OperationDefinition":
            c["operations"] += 1
            c["op:" + d["operation"]] += 1
            c["variable_definitions"] += len(d["variableDefinitions"])
            c["variable_defaults"] += sum(1 for v in d["variableDefinitions"] if v["defaultValue"] is not None)
            walk(d["selectionSet"])
    return c


def analyze(c, spec):
    """Runs in a worker process. Returns JSON-able dict."""
    out = {"violations": [], "subjects": {}, "nontrivial": False, "ops": [], "sample": None}
    if not c.result.ok() or c.model is None:
        return out
    try:
        schema = gqlref.build_schema([gqlref.parse_schema(t, **gqlref.POST_2018) for t in c.schema_texts])
    except gqlref.GraphQLSyntaxError as e:
        raise runner.Inconclusive(f"reference cannot parse the schema of {c.cid}: {e}")
    persisted = None
    for _name, doc in c.model.get("json", {}).items():
        persisted = doc
    subjects = collections.Counter()
    import hashlib
    for where, op, _na, _allowed in e3.operations(c.model):
        text = op.get("text")
        if text is None and persisted is not None:
            text = persisted.get(op.get("operationId"))
        if text is None:
            continue
        out["ops"].append(hashlib.sha1(text.encode()).hexdigest()[:12])
        try:
            doc = gqlref.parse_executable(text)
        except gqlref.GraphQLSyntaxError as e:
            out["violations"].append({"rule": "syntax", "signature": f"C09/syntax/{e.code}",
                                      "what": f"{c.cid} {where}: operation does not parse: {e}",
                                      "witness": {"case": c.describe(), "where": where, "operation": text[:3000], "replay": c.replay()}})
            continue
        s = operation_subjects(doc)
        subjects.update(s)
        if s["arguments"] or s["variable_definitions"]:
            out["nontrivial"] = True
            if out["sample"] is None and c.kind == "generated":
                out["sample"] = {"case": c.describe(), "operation": text[:500]}
        for err in gqlref.validate(schema, doc):
            out["violations"].append({"rule": err.rule, "signature": f"C09/{err.rule}/{e3.shape_of_error(err.message)}",
                                      "what": f"{c.cid} {where}: {err.message}",
                                      "witness": {"case": c.describe(), "where": where, "operation": text[:3000], "replay": c.replay()}})
    out["subjects"] = dict(subjects)
    return out


def selftest():
    sch = gqlref.build_schema([gqlref.parse_schema("type Query { a(x: Int!): String, o: O } type O { b: Int }")])
    bad = ["query Q { a }", "query Q { nope }", "query Q($v: Int) { a(x: $v) }", "query Q { o }", "query Q { a(x: 1) { b } }",
           "query Q($u: Int!) { a(x: 1) }", "query Q { a(x: \"s\") }", "query Q { a(x: 1) a: o { b } }"]
    for b in bad:
        if not gqlref.validate(sch, gqlref.parse_executable(b)):
            raise runner.Inconclusive(f"reference validator self-test failed: accepted {b!r}")
    if gqlref.validate(sch, gqlref.parse_executable("query Q($v: Int!) { a(x: $v) o { b } }")):
        raise runner.Inconclusive("reference validator self-test failed: rejected a valid document")


def run(ctx):
    selftest()
    cli = runner.build_cli()
    n = ctx.pick(50, 4000)
    results = e3.run_cases(ctx, cli, ["core", "text", "keys", "rt", "rt_text"], n, "c09", [("props.c09", "analyze")])
    # near-miss corpus: single-fault mutants (pylib/isomut.py). Normally rejected, hence not judged; whenever the
    # compiler does accept one, the operations it generated are validated like any other. The `id`-argument mutant is
    # left out: its acceptance is the listed C16 known finding (the undefined argument then shows in the operation).
    mres = e3.run_cases(ctx, cli, ["core", "keys"], ctx.pick(60, 4000), "c09m", [("props.c09", "analyze")],
                        with_checked_in=False, mutate=True, mutate_exclude=("undefined-argument-named-id",))
    accepted_mutants = sum(1 for r in mres if r["ok"])
    results = results + mres
    v, subjects, ops, samples = [], collections.Counter(), set(), []
    ok = nontrivial = 0
    for r in results:
        a = r["results"].get("props.c09.analyze")
        if not a:
            continue
        ok += 1 if r["ok"] else 0
        v += a["violations"]
        subjects.update(a["subjects"])
        ops.update(a["ops"])
        nontrivial += 1 if a["nontrivial"] else 0
        if a["sample"] and len(samples) < 3:
            samples.append(a["sample"])
    cov = {"evaluations": len(results), "distinct_nontrivial": min(nontrivial, len(ops)), "rule": RULE, "samples": samples,
           "successful_compiles": ok, "distinct_operations_validated": len(ops), "rule_subjects": dict(subjects),
           "near_miss_mutants_compiled": len(mres), "near_miss_mutants_accepted_and_validated": accepted_mutants}
    return runner.finish(ctx, LEVEL, cov, v, assumptions=[
        "pylib/gqlref.py (spec transcription written for this harness) is the validator; self-tested on hand-made invalid documents each run",
        "the schema given to the validator is the project's schema file plus extensions as written",
    ])


def replay(ctx, path):
    return run(ctx)
