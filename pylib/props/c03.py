"""C03 - garbage collection keeps retained results and never breaks reads; no UB (pico)."""
import pico_common as pc
import runner

LEVEL = "exploration"
RULE = ("GC-heavy histories (LRU capacity 1-3, retain/clear_retain/never_garbage_collect, intern_ref of equal values "
        "from several owners) on the real pico. Monitors: (a) a node in the guaranteed-retained set (capacity most "
        "recently called distinct top-level nodes + retained, closed under dependencies) is not re-executed without a "
        "changed dependency; (b) every reference obtained from such a result reads the same value after GC (liveness of "
        "the pointee observed through a drop-registering value type); (c) the same histories under Miri (and ASan / "
        "valgrind in thorough): any UB / use-after-free / leak report. Non-trivial: history has >=1 GC with a non-empty "
        "guaranteed set.")


def run(ctx):
    n = ctx.pick(300_000, 16_000_000)
    rep = pc.run_native(ctx, "gc", n, samples=2)
    rep2 = pc.run_native(ctx, "general", n // 2, samples=0)
    pc._merge(rep, rep2)
    rep.setdefault("crashes", []).extend(rep2.get("crashes", []))
    v = pc.violations_for("C03", rep) + pc.crash_violations("C03", rep)
    known = {k["signature"] for k in runner.load_known() if k["property"] == "C03"}
    shards, per = ctx.pick((16, 12), (16, 400))
    mrep = pc.run_miri(ctx, "gc", shards, per)
    v += pc.miri_violations(mrep, known)
    tools = {"miri_histories": mrep.get("histories", 0), "miri_ub_reports": len(mrep.get("miri_reports", []))}
    if not ctx.quick():
        import pico_tools
        tools.update(pico_tools.run_asan_and_valgrind(ctx, v, known))
    cov = {
        "evaluations": rep["histories"] + mrep.get("histories", 0),
        "distinct_nontrivial": rep["nontrivial_c03"],
        "rule": RULE,
        "samples": rep["samples"][:2],
        "observed": pc.stats_subset(rep, ["gcs", "retained_survivals_checked", "handle_lookups_checked",
                                          "reexec_after_gc_discard", "executions", "events"]),
        "tools": tools,
        "miri_report_samples": mrep.get("miri_reports", [])[:2],
    }
    return runner.finish(ctx, LEVEL, cov, v, assumptions=[
        "guaranteed-retained set is the harness's model of the statement (LRU capacity + retain counts, closed under "
        "dependencies recorded at the last execution)",
        "a reference is looked up only while the result it was obtained from is current (no source write since)",
        "Miri/ASan observe only the histories they are given",
    ])


def replay(ctx, path):
    return run(ctx)
