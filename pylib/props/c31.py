"""C31 - diagnostic excerpts underline exactly the reported span."""
from concurrent.futures import ThreadPoolExecutor

import runner
import util_common as uc

LEVEL = "exploration"
RULE = (
    "util_tools carats calls the real common_lang_types::text_with_carats(text, outer, inner, false). Texts are built "
    "from pieces (ASCII, space, tab, LF, CRLF, CR, 2/3/4-byte characters, BOM, literal '^'); 4/5 are short (<= 12 "
    "pieces) and get EVERY non-empty span on character boundaries, 1/5 are long (<= 400 pieces) with 40 random spans; "
    "1/3 of the texts sit inside a larger file and are addressed through an outer span. Oracle (independent model): "
    "no panic; a (row, col) is reported and row = 1 + number of LF before the absolute span start; the output, "
    "re-associated line by line with the file's lines (source line, then a caret line exactly when the line has span "
    "characters), has carets under exactly the character cells (one cell per character) of the span's characters on "
    "that line; a span covering only line breaks may print nothing. The column is recorded against three units "
    "(bytes / characters / UTF-16); a column matching none of them is a violation. Non-trivial = output has >= 1 "
    "caret line and the text is multi-line or non-ASCII; distinct = distinct (text, span) across shards.")


def run(ctx):
    binary = uc.build()
    texts = ctx.pick(48_000, 1_000_000)
    miri_shards, miri_texts = ctx.pick((8, 3), (16, 100))
    with ThreadPoolExecutor(max_workers=1) as bg:
        # Miri (slow start-up, ~0.1 s per call) runs concurrently with the native shards; short texts only
        miri_future = bg.submit(uc.miri_sharded, ctx, "carats", "c31", miri_shards, miri_texts, ("--short-only",))
        rep, crashes = uc.run_sharded(ctx, binary, "carats", "c31", texts, 5000)
    violations = uc.finding_violations("C31", rep, "harness/target/verif/util_tools carats --file <text> --s A --e B")
    if crashes:
        raise runner.Inconclusive(f"carats worker died: {crashes[0]}")
    if rep.get("col_matches_none", 0):
        violations.append({"rule": "column", "signature": "C31/column/matches-no-unit",
                           "what": f"{rep['col_matches_none']} reported columns equal neither 1+bytes, 1+chars nor 1+utf16 "
                                   "units since the line start", "witness": {}})
    b, c, u = rep.get("col_matches_when_units_differ", [0, 0, 0])
    differ = rep.get("col_cases_where_units_differ", 0)
    unit = "undetermined"
    if differ:
        unit = "bytes" if b == differ else "characters" if c == differ else "utf16" if u == differ else "mixed"
        if unit == "mixed":
            violations.append({"rule": "column", "signature": "C31/column/inconsistent-unit",
                               "what": f"column unit is not consistent over {differ} discriminating cases "
                                       f"(bytes {b}, chars {c}, utf16 {u})", "witness": {}})

    mrep, ub = miri_future.result()
    violations += uc.miri_violations("C31", ub)
    violations += uc.finding_violations("C31", mrep, "cargo +nightly miri run -p util_tools -- carats --seed S --count N")

    cov = {
        "evaluations": rep.get("evaluations", 0),
        "distinct_nontrivial": rep.get("distinct_across_shards", 0),
        "rule": RULE,
        "samples": rep.get("samples", [])[:3] or [{"note": "no sample"}],
        "observed": {
            "texts": rep.get("texts", 0),
            "calls": rep.get("evaluations", 0),
            "calls_with_outer_span": rep.get("with_outer_span", 0),
            "calls_on_non_ascii_text": rep.get("non_ascii_cases", 0),
            "spans_crossing_line_breaks": rep.get("multi_line_spans", 0),
            "caret_lines_checked": rep.get("caret_lines_checked", 0),
            "empty_outputs_for_line_break_only_spans": rep.get("empty_outputs", 0),
            "column_unit_followed_by_implementation": unit,
            "column_cases_where_units_differ": differ,
            "column_matches_bytes_chars_utf16": rep.get("col_matches_bytes_chars_utf16"),
            "signature_counts": rep.get("signature_counts", {}),
            "miri": {"calls": mrep.get("evaluations", 0), "caret_lines_checked": mrep.get("caret_lines_checked", 0),
                     "ub_reports": len(ub)},
        },
    }
    return runner.finish(ctx, LEVEL, cov, violations, assumptions=[
        "spans are non-empty, inside the text and on UTF-8 character boundaries (what the parser produces, see C07)",
        "the property statement fixes the reported line; the column's unit is not documented, so it is observed "
        "(the implementation reports 1 + BYTES since the line start) and only an inconsistent column is a violation",
        "which context lines are printed around the span is free; a line break inside the span has no cell",
    ])


def replay(ctx, path):
    return run(ctx)
