"""C32 - cursor positions resolve to the innermost syntax node."""
import runner
import util_common as uc

LEVEL = "exploration"
RULE = (
    "util_tools resolve generates grammar-directed iso literals (C07's grammar; 1/8 lightly mutated), parses them with "
    "the real parser and, for EVERY byte offset o in 0..=len(text), calls the derived "
    "IsoLiteralExtractionResult::resolve((), Span::new(o,o)) exactly as isograph_lsp does. An independent hand-written "
    "walk over the public AST fields (no ResolvePosition/#[resolve_field]) builds the tree of resolvable nodes (the 13 "
    "IsographResolvedNode kinds, identified by kind + address) with their spans. Oracle: the returned node is a node of "
    "this AST; it is innermost (no resolvable child of it contains o; when two siblings both touch o at a boundary "
    "either is accepted and counted as ambiguous); it and every ancestor except the unconditional root contain o "
    "(Span::contains convention: both ends inclusive); the parent chain reported in the path (kinds and addresses) "
    "equals the real ancestor chain. Non-trivial literal = parsed, resolvable-node depth >= 2 and >= 3 distinct node "
    "kinds returned over its offsets; distinct = distinct texts across shards.")


def run(ctx):
    binary = uc.build()
    n = ctx.pick(64_000, 1_600_000)
    rep, crashes = uc.run_sharded(ctx, binary, "resolve", "c32", n, 4000)
    violations = uc.finding_violations("C32", rep, "harness/target/verif/util_tools resolve --file <file with 'input'>")
    for c in crashes:
        violations.append({"rule": "fatal-signal", "signature": f"C32/fatal-signal-{c['signal']}/resolve",
                           "what": f"resolve worker died with {c['signal']} on literal #{c['index']} (shard seed {c['seed']})",
                           "witness": c})
    cov = {
        "evaluations": rep.get("offsets", 0),
        "distinct_nontrivial": rep.get("distinct_across_shards", 0),
        "rule": RULE,
        "samples": rep.get("samples", [])[:2] or [{"note": "no short deep sample"}],
        "observed": {
            "literals_generated": rep.get("literals", 0),
            "literals_parsed": rep.get("parsed", 0),
            "offsets_resolved": rep.get("offsets", 0),
            "resolvable_nodes_walked": rep.get("resolvable_nodes", 0),
            "returned_node_kinds": rep.get("by_result_kind", {}),
            "distinct_returned_kinds": len(rep.get("by_result_kind", {})),
            "offsets_with_two_innermost_candidates": rep.get("ambiguous_offsets", 0),
            "offsets_outside_the_declaration_span": rep.get("outside_root_offsets", 0),
            "max_resolvable_depth": rep.get("max_depth", 0),
            "signature_counts": rep.get("signature_counts", {}),
        },
    }
    return runner.finish(ctx, LEVEL, cov, violations, assumptions=[
        "containment is Span::contains of the empty span (start <= o <= end), the convention of the code under test",
        "a type annotation is one resolvable node (list element annotations nested in it have no representable parent "
        "in TypeAnnotationDeclarationParentType)",
        "the language server calls resolve for any offset of the literal, also outside the declaration's own span "
        "(keyword, surrounding whitespace): there the declaration itself is the expected answer",
    ])


def replay(ctx, path):
    return run(ctx)
