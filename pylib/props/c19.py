"""C19 - an interrupted artifact write is repaired by the next successful compile."""
import collections
import time

import fsops_common as fc
import runner

LEVEL = "fault_enumeration"
KINDS = ["DeleteDirectory", "CreateDirectory", "WriteFile", "DeleteFile"]
RULE = (
    "For every case EVERY fault point of the write phase is enumerated (count measured by a fault-free dry run). "
    "Leg A (in-process, `iso_tools fsops sets --mode c19`): sessions of 1-3 random artifact sets over arbitrary initial "
    "directories; at the chosen write (first = recreate plan, later = diff plan) primitive k of apply_file_system_operations "
    "fails with an I/O error through isograph_compiler::verif::set_fault_plan, for k = 0..n-1; the real "
    "write_artifacts_to_disk must report the error; then 0-3 artifact-set changes; then a fault-free write (a) in the same "
    "session (same Option<FileSystemState>; followed by one more write) and (b) in a fresh session on a copy of the damaged "
    "directory; each must leave the directory equal to the artifact set (C18's tree oracle). Leg B (in-process, real projects): "
    "isogen core/plain projects with 4 source versions through the real CompilerState/update_sources/compile API; faults in the "
    "first compile of a session and in later (diff) compiles, every k; 0-3 source changes without compiling; recovery in the "
    "same CompilerState and in a new CompilerState over the damaged directory; expected = get_artifact_path_and_content. "
    "Leg S (hook-free): the real isograph_cli over a directory holding the previous version's artifacts, under "
    "`strace -f -e inject=<syscall>:error=EIO:when=N` and `...:signal=KILL:when=N` for every invocation N (main thread) of "
    "openat/mkdir/unlinkat/rmdir/write that touches the artifact directory (range measured by a traced dry run; an injection "
    "counts only when strace reports it on an artifact path), followed by an untraced compile in a new process; expected = the "
    "CLI compiling the same sources into a fresh directory. Non-trivial: a case with >=2 fault points covering >=2 operation "
    "(or syscall) kinds; distinct by case fingerprint.")


def per_kind(stats):
    out = {}
    for k in KINDS + ["unknown"]:
        inj = stats.get(f"injected:{k}", 0)
        if inj or k in KINDS:
            out[k] = {"injected": inj, "recovered_same_session": stats.get(f"recovered_same_session:{k}", 0),
                      "recovered_fresh_session": stats.get(f"recovered_fresh_session:{k}", 0)}
    return out


def run(ctx):
    tool = fc.build_tool()
    cli = runner.build_cli()
    scratch = fc.Scratch(ctx)
    try:
        ok, why = fc.strace_available(cli, scratch)
        if not ok:
            raise runner.Inconclusive(f"hook-free fault-injection leg cannot run: {why}")
        t = [time.time()]
        a = fc.run_sets(ctx, tool, scratch, "c19", ctx.pick(1500, 40000), "c19a", max_steps=3, disk_factor=6)
        t.append(time.time())
        b = fc.run_projects(ctx, tool, cli, scratch, ctx.pick(150, 1500), "c19b", c19=True, nversions=4)
        t.append(time.time())
        v = fc.violations_from("C19", a["findings"], "sets") + fc.violations_from("C19", b["findings"], "session")
        try:
            s = fc.run_strace_leg(ctx, cli, scratch, ctx.pick(3, 24), "c19s", "C19")
        except runner.Inconclusive as e:
            if not v:
                raise
            # the in-process legs already refute the property; an unusable hook-free leg must not hide that
            s = {"projects": 1, "points": 0, "stats": {}, "violations": [], "samples": [], "fingerprints": set(), "nontrivial": 0,
                 "missed": 1, "inconclusive": str(e)}
        t.append(time.time())
    finally:
        scratch.cleanup()
    v += s["violations"]
    bad_cross = [x for x in b["cross"] if not x["ok"] or x["diffs"]]
    if bad_cross and not v:
        raise runner.Inconclusive(f"in-process session and real CLI disagree for the same sources ({len(bad_cross)} cases), e.g. {bad_cross[0]}")
    if s["projects"] == 0:
        raise runner.Inconclusive("no generated project was usable for the strace leg")
    b_nontrivial = {x["id"] for x in b["cases"] if sum(1 for n in x["prims"] if n >= 2) >= 1}
    b_incomplete = [x["id"] for x in b["cases"] if not x["complete"]]
    a_unfinished = {k: n for k, n in a["stats"].items() if k.startswith("c19_")}
    b_unfinished = {k: n for k, n in b["stats"].items() if k.startswith("c19_")}
    exhaustive = (a["fully_enumerated"] == a["cases"] and not b_incomplete and not a_unfinished and not b_unfinished
                  and s["missed"] == 0 and not b["errors"])
    samples = a["samples"][:2] + s["samples"][:1]
    for x in b["cases"]:
        if x["id"] in b_nontrivial:
            spec = b["specs"][x["id"]]
            samples.append({"project": x["id"], "versions": spec["labels"], "compiled": x["valid"], "fault_points_per_version": x["prims"],
                            "fault_steps": spec["fault_steps"], "initial_root": spec["initial_root"],
                            "initial": [f"{e['kind']} {e['path']}" for e in spec["initial"]][:10]})
            break
    strace_kinds = {}
    for k, n in s["stats"].items():
        what, _, key = k.partition(":")
        strace_kinds.setdefault(key, {})[what] = n
    cov = {
        "evaluations": a["cases"] + len(b["cases"]) + s["projects"],
        "distinct_nontrivial": len(a["fps"]) + len(b_nontrivial) + min(s["nontrivial"], len(s["fingerprints"])),
        "rule": RULE,
        "samples": samples[:5],
        "exhaustive": exhaustive,
        "fault_points_total": a["stats"].get("fault_points", 0) + b["stats"].get("fault_points", 0) + s["points"],
        "leg_a_cases": a["cases"], "leg_a_cases_fully_enumerated": a["fully_enumerated"], "leg_a_fault_points": a["stats"].get("fault_points", 0),
        "leg_a_fault_points_by_operation_kind": per_kind(a["stats"]), "leg_a_observed": a["stats"],
        "leg_a_file_systems": dict(a["file_systems"]),
        "leg_b_projects": len(b["cases"]), "leg_b_projects_fully_enumerated": len(b["cases"]) - len(b_incomplete),
        "leg_b_fault_points": b["stats"].get("fault_points", 0), "leg_b_fault_points_by_operation_kind": per_kind(b["stats"]),
        "leg_b_observed": b["stats"], "leg_b_tool_errors": len(b["errors"]), "leg_b_cli_cross_checks_equal": len(b["cross"]),
        "leg_s_projects": s["projects"], "leg_s_injection_runs": s["points"], "leg_s_injections_that_missed_the_artifact_directory": s["missed"],
        "leg_s_by_syscall_and_fault": strace_kinds,
        "leg_s_inconclusive": s.get("inconclusive"),
        "leg_wall_s": [round(t[i + 1] - t[i], 1) for i in range(3)],
    }
    return runner.finish(ctx, LEVEL, cov, v, assumptions=[
        "in-process fault = the primitive fails before doing anything (hook fault_point precedes each operation); partial effects "
        "inside one primitive (remove_dir_all half done, short write) are covered only by the strace leg",
        "strace counts `when=N` per thread; the compile runs on the CLI's main thread (checked: every injection must be reported by "
        "strace on an artifact-directory path, otherwise it is counted as missed and exhaustive is false)",
        "the operation kind of fault point k is inferred from the path in the reported error (operation order is hash-map order)",
        "entity/selectable names never collide with root artifact file names",
        "recovery compiles themselves see fault-free I/O",
    ])


def replay(ctx, path):
    return run(ctx)
