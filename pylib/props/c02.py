"""C02 - memoized functions re-run only when something they read changed (pico)."""
import pico_common as pc
import runner

LEVEL = "exploration"
RULE = ("same histories as C01; offline monitor over the event log recorded at pico's client boundary: every "
        "Enter(node) of a node that ran before and whose result was guaranteed retained must be justified by a direct "
        "dependency (source written with a different value/removed/created, or child whose cached value changed or whose "
        "from-scratch value differs from what was seen). Non-trivial: history has an equal-value write, a backdating "
        "opportunity or a justified re-execution.")


def run(ctx):
    n = ctx.pick(400_000, 24_000_000)
    rep = pc.run_native(ctx, "general", n, samples=2)
    rep2 = pc.run_native(ctx, "gc", n // 4, samples=1)
    pc._merge(rep, rep2)
    if rep.get("crashes") or rep2.get("crashes"):
        raise runner.Inconclusive("pico_mon died; see C03")
    v = pc.violations_for("C02", rep)
    cov = {
        "evaluations": rep["histories"],
        "distinct_nontrivial": rep["nontrivial_c02"],
        "rule": RULE,
        "samples": rep["samples"][:3],
        "observed": pc.stats_subset(rep, ["executions", "equal_writes", "backdate_opportunities",
                                          "reexec_justified_by_source", "reexec_justified_by_child",
                                          "reexec_after_gc_discard", "events", "gcs"]),
    }
    return runner.finish(ctx, LEVEL, cov, v, assumptions=[
        "tracked-field mutable access counts as a write of the field's counter (every tracked() bumps it)",
    ])


def replay(ctx, path):
    return run(ctx)
