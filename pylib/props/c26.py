"""C26 - persisted document ids match the documents they name."""
import collections
import hashlib
import json
import os
import shutil
from concurrent.futures import ProcessPoolExecutor

import cli_common as cc
import e3
import gqlref
import isogen
import runner
from runner import subseed

LEVEL = "exploration"
RULE = ("seeded projects (isogen profiles core/keys/text incl. loadable fields and __refetch, so that refetch operations "
        "exist) and the four checked-in projects are compiled twice by the real isograph_cli: without persisted documents "
        "and with options.persisted_documents = {algorithm md5|sha256, include_extra_info true|false, file default|custom}. "
        "Node evaluates every entrypoint and refetch artifact of both builds. Oracle: every operation of the persisted "
        "build is a PersistedOperation whose operationId is a key of the persisted documents file; the configured hash of "
        "the recorded document text equals the id (python hashlib); the recorded document parses and equals, as a GraphQL "
        "AST (reference parser, whitespace-insensitive), the operation text of the same artifact in the non-persisted "
        "build; the file has exactly the referenced ids, is a JSON object of strings, has the configured name and sits in "
        "the artifact directory; extraInfo is an object naming the operation when requested and null otherwise; every "
        "other artifact is identical in both builds. Non-trivial: project with >= 2 distinct operations; distinct by "
        "(option combination, operation id set).")


def strip_loc(x):
    if isinstance(x, dict):
        return {k: strip_loc(v) for k, v in x.items() if k not in ("loc", "line", "column", "start", "end", "block")}
    if isinstance(x, list):
        return [strip_loc(v) for v in x]
    return x


def _prepare(spec, root):
    if spec["kind"] == "generated":
        p = isogen.generate(spec["seed"], spec["profile"])
        p.config.get("options", {}).pop("persisted_documents", None)
        shutil.rmtree(root, ignore_errors=True)
        p.write(root)
        return f"{spec['profile']}:{spec['seed']}"
    proj = [x for x in cc.checked_in_projects() if x["name"] == spec["name"]][0]
    cc.copy_checked_in(proj, root)
    return "checked-in:" + spec["name"]


def _ops(model):
    return {where: op for where, op, _na, _al in e3.operations(model)}


def _case(spec):
    out = {"violations": [], "stats": collections.Counter(), "nontrivial": False, "distinct": None, "sample": None, "error": None}
    root = spec["root"]
    try:
        cid = _prepare(spec, root)
        cfgp = os.path.join(root, "isograph.config.json")
        cfg = json.load(open(cfgp))
        cfg.setdefault("options", {}).pop("persisted_documents", None)
        json.dump(cfg, open(cfgp, "w"))
        r0 = cc.run_cli_timed(spec["cli"], root)
        if not r0.ok():
            out["stats"]["base_compile_failed"] += 1
            return out
        adir = cc.artifact_dir_of(root)
        m0 = cc.probe_dump(adir, os.path.join(root, ".m0.json"))
        snap0 = cc.snapshot(adir)
        shutil.rmtree(adir)
        pd = dict(spec["pd"])
        cfg["options"]["persisted_documents"] = pd
        json.dump(cfg, open(cfgp, "w"))
        r1 = cc.run_cli_timed(spec["cli"], root)
        wit = {"case": cid, "persisted_documents": pd, "replay": spec.get("seed")}

        def viol(rule, sig, what, **kw):
            out["violations"].append({"rule": rule, "signature": f"C26/{sig}", "what": f"{cid} {pd}: {what}"[:400],
                                      "witness": dict(wit, **kw)})
        if not r1.ok():
            viol("persisted-build-failed", "persisted-build-failed", "compile with persisted documents failed: " + cc.ANSI.sub("", r1.stderr)[-300:])
            return out
        m1 = cc.probe_dump(adir, os.path.join(root, ".m1.json"))
        snap1 = cc.snapshot(adir)
        fname = pd.get("file") or "persisted_documents.json"
        alg = pd.get("algorithm", "sha256")
        docs = m1.get("json", {}).get(fname)
        if docs is None:
            viol("file-missing", "persisted-documents-file-missing", f"{fname} not found in the artifact directory; json files: {sorted(m1.get('json', {}))}")
            return out
        out["stats"]["persisted_files_read"] += 1
        if not isinstance(docs, dict) or not all(isinstance(v, str) for v in docs.values()):
            viol("file-shape", "persisted-documents-file-shape", "file is not an object of strings")
            return out
        extra_json = sorted(set(m1.get("json", {})) - {fname} - set(m0.get("json", {})))
        if extra_json:
            viol("extra-json", "unexpected-extra-json-file", f"unexpected json artifacts {extra_json}")
        ops0, ops1 = _ops(m0), _ops(m1)
        if set(ops0) != set(ops1):
            viol("operation-set", "operation-artifacts-differ-between-builds", f"only non-persisted {sorted(set(ops0) - set(ops1))[:3]}, only persisted {sorted(set(ops1) - set(ops0))[:3]}")
        referenced = set()
        for where, op in sorted(ops1.items()):
            out["stats"]["operations_checked"] += 1
            if "__refetch__" in where:
                out["stats"]["refetch_operations_checked"] += 1
            if not op or op.get("kind") != "PersistedOperation":
                viol("not-persisted", "operation-not-persisted", f"{where}: operation kind is {op and op.get('kind')!r}")
                continue
            oid = op.get("operationId")
            referenced.add(oid)
            if oid not in docs:
                viol("id-not-in-file", "operation-id-not-in-file", f"{where}: id {oid} not in {fname}")
                continue
            text = docs[oid]
            h = hashlib.md5(text.encode()).hexdigest() if alg == "md5" else hashlib.sha256(text.encode()).hexdigest()
            out["stats"]["hashes_recomputed"] += 1
            if h != oid:
                viol("hash-mismatch", f"hash-mismatch/{alg}", f"{where}: {alg}(document) = {h} but id = {oid}", document=text[:500])
            base = ops0.get(where)
            if base is not None and base.get("text") is not None:
                try:
                    a = strip_loc(gqlref.parse_executable(text))
                    b = strip_loc(gqlref.parse_executable(base["text"]))
                    out["stats"]["documents_compared_with_non_persisted_build"] += 1
                    if a != b:
                        viol("document-differs", "document-differs-from-non-persisted-operation", f"{where}: persisted document is not the operation the non-persisted build sends",
                             persisted=text[:800], non_persisted=base["text"][:800])
                except gqlref.GraphQLSyntaxError as e:
                    viol("document-syntax", "document-does-not-parse", f"{where}: {e}", document=text[:500])
            ei = op.get("extraInfo")
            if pd.get("include_extra_info"):
                out["stats"]["extra_info_checked"] += 1
                if not isinstance(ei, dict):
                    viol("extra-info", "extra-info-missing", f"{where}: extraInfo requested but is {ei!r}")
                else:
                    try:
                        doc = gqlref.parse_executable(text)
                        od = [d for d in doc["definitions"] if d["kind"] == "OperationDefinition"][0]
                        name = od.get("name")
                        name = name.get("value") if isinstance(name, dict) else name
                        vals = set(map(str, ei.values()))
                        if name not in vals or od["operation"] not in {str(v).lower() for v in ei.values()}:
                            viol("extra-info", "extra-info-does-not-describe-the-operation", f"{where}: extraInfo {ei} vs operation {od['operation']} {name}")
                    except gqlref.GraphQLSyntaxError:
                        pass
            elif ei is not None:
                viol("extra-info", "extra-info-present-but-not-requested", f"{where}: extraInfo = {ei!r}")
        unref = sorted(set(docs) - referenced)
        if unref:
            viol("unreferenced", "file-records-unreferenced-operation", f"{fname} has {len(unref)} ids no artifact references, e.g. {unref[0]}")
        # every other artifact identical
        changed = sorted(k for k in set(snap0) | set(snap1)
                         if snap0.get(k) != snap1.get(k) and k != fname and not k.endswith("entrypoint.ts")
                         and "__refetch__" not in k and not k.endswith("query_text.ts"))
        if changed:
            viol("other-artifacts", "unrelated-artifact-changed", f"artifacts other than operation carriers differ: {changed[:4]}")
        out["stats"]["distinct_ids"] += len(referenced)
        out["nontrivial"] = len(referenced) >= 2
        out["distinct"] = json.dumps([alg, bool(pd.get("include_extra_info")), bool(pd.get("file")), sorted(referenced)[:3]])
        out["sample"] = {"case": cid, "options": pd, "ids": sorted(referenced)[:2], "document": (docs[sorted(referenced)[0]][:200] if referenced else None)}
        return out
    except runner.Inconclusive as e:
        out["error"] = str(e)
        return out
    finally:
        out["stats"] = dict(out["stats"])
        shutil.rmtree(root, ignore_errors=True)


def combos():
    out = []
    for alg in ("md5", "sha256", None):
        for extra in (False, True):
            for file in (None, "custom_docs.json"):
                pd = {}
                if alg:
                    pd["algorithm"] = alg
                if extra:
                    pd["include_extra_info"] = True
                if file:
                    pd["file"] = file
                out.append(pd)
    return out


def run(ctx):
    cli = runner.build_cli()
    n = ctx.pick(40, 2500)
    cs = combos()
    specs = []
    k = 0
    for proj in cc.checked_in_projects():
        for pd in cs[:: (3 if ctx.quick() else 1)]:
            specs.append({"kind": "checked-in", "name": proj["name"], "pd": pd, "cli": cli, "root": os.path.join(ctx.work, f"c26-ci-{k}")})
            k += 1
    for prof in ("core", "keys", "text"):
        for i in range(n):
            seed = subseed(ctx.seed, "c26", prof, i) % (1 << 48)
            specs.append({"kind": "generated", "profile": prof, "seed": seed, "pd": cs[(i + len(prof)) % len(cs)], "cli": cli,
                          "root": os.path.join(ctx.work, f"c26-{prof}-{i}")})
    with ProcessPoolExecutor(max_workers=runner.NCPU) as ex:
        results = list(ex.map(_case, specs, chunksize=1))
    errs = [r["error"] for r in results if r.get("error")]
    if len(errs) > max(2, len(results) // 20):
        raise runner.Inconclusive(f"{len(errs)} cases inconclusive, e.g. {errs[0]}")
    v, stats, distinct, samples = [], collections.Counter(), set(), []
    for r in results:
        v += r["violations"]
        stats.update(r["stats"])
        if r["nontrivial"]:
            distinct.add(r["distinct"])
        if r["sample"] and len(samples) < 3 and r["nontrivial"]:
            samples.append(r["sample"])
    cov = {"evaluations": len(results), "distinct_nontrivial": len(distinct), "rule": RULE, "samples": samples or [{"note": "none"}],
           "observed": dict(stats), "option_combinations": len(cs)}
    return runner.finish(ctx, LEVEL, cov, v, assumptions=[
        "hashes recomputed with python hashlib over the UTF-8 document text as recorded in the file",
        "document equality is GraphQL AST equality by pylib/gqlref.py",
    ])


def replay(ctx, path):
    return run(ctx)
