"""C22 - formatting preserves meaning, is idempotent, and its edits replace
exactly the literal's text."""
import lsp_common as lc
import runner

LEVEL = "exploration"
RULE = ("seeded documents with 1..4 grammar-generated iso literals (field / pointer / entrypoint; variable definitions with "
        "named, list and non-null types and constant defaults; directives with arguments; string and block-string "
        "descriptions; aliases, arguments with variables, ints, strings with escapes and non-ASCII, booleans, null, nested "
        "objects; nested selection sets; @loadable / @updatable) written with random white space, tabs, CRLF, commas "
        "and/or line breaks, embedded in .tsx text with 2-, 3- and 4-byte characters before, between and after the "
        "literals (also on the literal's own line). Through the real formatting request: format(L) re-parsed by the public "
        "parser; span-erased AST(format(L)) == AST(L); format(format(L)) == format(L); the returned TextEdits applied "
        "with an independent LSP edit applier must change exactly the literals' bytes. Failing literals / documents are "
        "shrunk. Non-trivial: an accepted literal longer than 30 bytes with a token shape not seen before in the shard.")


def run(ctx):
    n = ctx.pick(3200, 320_000)
    rep = lc.run_tool(ctx, "format", n, samples=2, chunk=ctx.pick(200, 2000))
    v = lc.violations("C22", rep)
    c = rep["counters"]
    cov = {
        "evaluations": c.get("literals_accepted", 0),
        "distinct_nontrivial": rep["nontrivial"],
        "rule": RULE,
        "samples": lc.trim_samples(rep["samples"]),
        "observed": {"documents": rep["cases"], "literals_generated": c.get("literals", 0),
                     "literals_accepted_by_parser": c.get("literals_accepted", 0),
                     "literals_rejected_by_parser": c.get("literals_rejected_by_parser", 0),
                     "documents_with_non_ascii": c.get("documents_with_non_ascii", 0),
                     "text_edits_applied": c.get("edits_applied", 0)},
        "harness_errors": len(rep["harness_errors"]),
    }
    return runner.finish(ctx, LEVEL, cov, v, assumptions=[
        "the formatter is reached through the server's real request dispatcher (hook H6) on a fresh server per document",
        "'same declaration' is the span-erasing comparison of harness/lsp_tools/src/ast.rs "
        "(names, aliases, arguments+values, variables+types+defaults, directives, descriptions, selection order)",
        "nesting depth is at most 4 selection levels / 3 object levels",
    ])


def replay(ctx, path):
    return run(ctx)
