"""C07 - the iso literal parser is total and reports well-formed locations."""
import os
import re
from concurrent.futures import ThreadPoolExecutor

import runner
import util_common as uc

LEVEL = "exploration"
RULE = (
    "util_tools parse feeds seeded inputs to the real isograph_lang_parser::parse_iso_literal (as isograph_schema calls "
    "it: text, path, optional export name, TextSource with the literal's position) on an 8 MiB stack inside worker "
    "child processes (batches of 5000; a child killed by a signal is attributed to the input index in its progress "
    "file and the shard resumes after it). Inputs: 40% grammar-directed literals (field/pointer-with-to/entrypoint, "
    "variable definitions with defaults, arguments incl. objects, directives with arguments, single and block "
    "descriptions, aliases; random whitespace incl. CR, BOM, form feed; commas/line breaks), 7% the same with integers "
    "around +-2^63 and beyond, 21% token-level mutations (delete/duplicate/swap/replace/insert junk tokens/truncate/"
    "splice), 22% character-level mutations (non-ASCII incl. astral, BOM, CR, NUL, quotes, backslashes, duplicated and "
    "deleted slices, truncation -> unterminated strings), 10% raw token soup; plus one child per 'extreme' input "
    "(nesting of '{' / object values / list types / '(' up to 10^5-10^6 levels, 1-3 MB inputs of many selections/"
    "directives/arguments/variables, 1 MB strings, identifiers, integers, whitespace, quotes, non-ASCII). Oracle: no "
    "panic/abort/signal; every span on the returned AST (hand-written visitor over the public isograph_lang_types "
    "fields), on every semantic token and on the diagnostic has start<=end<=len(text) on UTF-8 char boundaries; "
    "semantic tokens strictly increasing by start and non-overlapping; one parse uses <= 20 CPU-seconds (thread CPU "
    "clock; RLIMIT_CPU on the child). Non-trivial = the parser got past the leading keyword (declaration returned or a "
    "diagnostic other than 'must start with field/pointer/entrypoint') ; distinct = distinct input texts across shards.")

NEST = ["nest-selection-open", "nest-selection-closed", "nest-object-value", "nest-object-value-closed",
        "nest-list-type", "nest-list-type-closed", "nest-paren", "nest-default-object"]
SIZE = ["many-selections", "many-directives", "many-arguments", "long-string", "long-block-string", "long-identifier",
        "long-whitespace", "long-integer", "many-quotes", "many-open-braces-raw", "long-nonascii", "many-variables"]


def construct_of(kind):
    k = re.sub(r"-(open|closed)$", "", kind)
    return {"nest-selection": "nested-selection-sets", "nest-object-value": "nested-object-values",
            "nest-default-object": "nested-object-values", "nest-list-type": "nested-list-types",
            "nest-paren": "nested-parens"}.get(k, k)


def crash_signature(stderr, signal, what):
    if "overflowed its stack" in stderr:
        return "stack-overflow", f"C07/stack-overflow/{what}"
    if signal == "SIGXCPU":
        return "cpu-bound-exceeded", f"C07/cpu-bound-exceeded/{what}"
    return "fatal-signal", f"C07/fatal-signal-{signal}/{what}"


def run_extremes(ctx, binary):
    sizes_nest = ctx.pick([100, 1000, 10_000, 100_000], [100, 1000, 3000, 10_000, 30_000, 100_000, 1_000_000])
    sizes_big = ctx.pick([10_000, 1_000_000], [10_000, 100_000, 1_000_000, 3_000_000])
    jobs = [(k, n) for k in NEST for n in sizes_nest] + [(k, n) for k in SIZE for n in sizes_big]

    def one(job):
        k, n = job
        rc, rep, err, cpu = uc.run_tool(binary, ["parse-extreme", "--kind", k, "--n", n], cpu_s=120)
        return k, n, rc, rep, err, cpu

    rep, crashes, table = {}, [], {}
    for k, n, rc, r, err, cpu in runner.run_shards(jobs, one):
        if rc == 0 and r is not None:
            uc.merge(rep, r)
            table.setdefault(k, {})[str(n)] = next(iter(r["by_outcome"]))
        else:
            table.setdefault(k, {})[str(n)] = uc.signal_name(rc)
            crashes.append({"kind": k, "n": n, "returncode": rc, "signal": uc.signal_name(rc),
                            "stderr_tail": err[-300:], "child_cpu_s": round(cpu, 2)})
    return rep, crashes, table


def run(ctx):
    binary = uc.build()
    n = ctx.pick(400_000, 16_000_000)
    # the Miri leg (slow start-up) runs concurrently with the native legs
    miri_shards, miri_per = ctx.pick((8, 40), (16, 1000))
    with ThreadPoolExecutor(max_workers=1) as bg:
        miri_future = bg.submit(uc.miri_sharded, ctx, "parse", "c07", miri_shards, miri_per)
        rep, crashes = uc.run_sharded(ctx, binary, "parse", "c07", n, 5000)
        xrep, xcrashes, table = run_extremes(ctx, binary)
        mrep, ub = miri_future.result()

    violations = uc.finding_violations("C07", rep, "harness/target/verif/util_tools parse-text --file <file with 'shrunk'>")
    violations += uc.finding_violations("C07", xrep, "harness/target/verif/util_tools parse-extreme --kind K --n N")
    # fatal signals inside mixed batches: regenerate the input for the witness
    for c in crashes:
        rc, g, err, _ = uc.run_tool(binary, ["gen", "--seed", c["seed"], "--start", c["index"], "--count", 1])
        text = None
        if rc == 0 and g is not None:
            text = g.get("text")
        rule, sig = crash_signature(c["stderr_tail"], c["signal"], (g or {}).get("class", "mixed"))
        violations.append({"rule": rule, "signature": sig,
                           "what": f"worker died with {c['signal']} on input #{c['index']} of shard seed {c['seed']}",
                           "witness": dict(c, input=(text or "")[:600])})
    smallest = {}
    for c in sorted(xcrashes, key=lambda c: c["n"]):
        cons = construct_of(c["kind"])
        rule, sig = crash_signature(c["stderr_tail"], c["signal"], cons)
        if sig in smallest:
            continue
        smallest[sig] = c
        violations.append({"rule": rule, "signature": sig,
                           "what": f"parser process died with {c['signal']} on extreme input {c['kind']} n={c['n']} "
                                   f"(8 MiB stack): {' '.join(c['stderr_tail'].split())[-120:]}",
                           "witness": dict(c, replay=f"prlimit --stack=8388608 harness/target/verif/util_tools "
                                                     f"parse-extreme --kind {c['kind']} --n {c['n']}")})

    violations += uc.miri_violations("C07", ub)
    miri = {"inputs": mrep.get("evaluations", 0), "by_outcome": mrep.get("by_outcome", {}),
            "spans_checked": mrep.get("spans_checked", 0), "ub_reports": len(ub)}
    violations += uc.finding_violations("C07", mrep, "cargo +nightly miri run -p util_tools -- parse --seed S --count N")

    fuzz = {"ran": False, "why": "thorough only"}
    if not ctx.quick():
        fuzz = fuzz_leg(ctx, violations)

    total_eval = rep.get("evaluations", 0) + xrep.get("evaluations", 0) + len(xcrashes) + len(crashes)
    samples = (rep.get("samples", [])[:3] + xrep.get("samples", [])[:1])[:4]
    cov = {
        "evaluations": total_eval,
        "distinct_nontrivial": rep.get("distinct_across_shards", 0),
        "rule": RULE,
        "samples": samples or [{"note": "no successfully parsed short sample in this run"}],
        "observed": {
            "inputs_by_class": rep.get("by_class", {}),
            "outcome_by_class": rep.get("by_class_and_outcome", {}),
            "outcomes": rep.get("by_outcome", {}),
            "distinct_diagnostic_messages": len(rep.get("diagnostic_messages", {})),
            "spans_checked": rep.get("spans_checked", 0) + xrep.get("spans_checked", 0),
            "semantic_tokens_checked": rep.get("semantic_tokens_checked", 0) + xrep.get("semantic_tokens_checked", 0),
            "non_ascii_inputs": rep.get("non_ascii_inputs", 0),
            "max_parse_cpu_us_mixed": rep.get("max_cpu_us", 0),
            "max_parse_cpu_us_extreme": xrep.get("max_cpu_us", 0),
            "max_input_len": max(rep.get("max_input_len", 0), xrep.get("max_input_len", 0)),
            "cpu_bound_us": 20_000_000,
            "worker_crashes_in_mixed_batches": len(crashes),
            "extreme_inputs": sum(len(v) for v in table.values()),
            "extreme_outcome_by_kind_and_size": table,
            "signature_counts": dict(rep.get("signature_counts", {}), **xrep.get("signature_counts", {})),
            "miri": miri,
            "libfuzzer": fuzz,
        },
    }
    return runner.finish(ctx, LEVEL, cov, violations, assumptions=[
        "the parser runs on an 8 MiB stack (isograph_cli parses on the main thread; default ulimit -s)",
        "build profile 'verif' = release + debug assertions + overflow checks: Span::new's debug_assert turns an "
        "inverted span into a panic; both are violations",
        "TextSource spans are offsets of the literal in its file; AST/diagnostic spans are relative to the literal",
        "dropping a returned (possibly very deep) AST is done by the harness on a 1 GiB stack and is not attributed "
        "to the parser",
    ])


def fuzz_leg(ctx, violations):
    """libFuzzer leg: see fuzz/README in harness/util_tools; optional."""
    import fuzz_c07
    return fuzz_c07.run(ctx, violations)


def replay(ctx, path):
    return run(ctx)
