"""C06 - the lock-free arena hands out each slot once and reads back what was added (relay-crates/intern)."""
import intern_common as ic
import runner

LEVEL = "exploration"
RULE = ("Seeded histories on the real AtomicArena (hook H2 on): the arena is pre-filled from the main thread up to 0-3 "
        "elements before a bucket boundary (0/128/384/896/1920/3968 elements), then 2-8 threads released by a barrier add "
        "unique (thread,seq) elements (8-byte, 264-byte, heap-owning, zero-sized; also static with_zero arenas that persist "
        "over histories), read refs published by other threads through a Release/Acquire board, and sample len(), while a "
        "per-history delay plan (yield / spin 1-50us / sleep / bounded rendezvous) stretches the windows at the hook sites. "
        "Offline over the merged per-thread logs: no Ref twice; every get reads the element added under that Ref (also from "
        "the main thread after join); len() never decreases per observer, lies between adds completed-before and "
        "started-before (stamped histories) and equals completed adds after join; after drop(arena) every element's drop "
        "counter is exactly 1 and no drop ran on a never-written slot. The same program under Miri (many scheduler seeds, "
        "Stacked and Tree Borrows, raised preemption rate) and, in thorough, ThreadSanitizer, AddressSanitizer and a build with the crate's own memory_consistency_assertions on. Non-trivial: >=2 worker "
        "threads found the same bucket pointer null (raced into slice_for_slot_slow); distinct = distinct hash of the "
        "merged (site,thread) hook-hit order.")

MIRI_VARIANTS = ["-Zmiri-preemption-rate=0.05", "-Zmiri-preemption-rate=0.2 -Zmiri-tree-borrows",
                 "-Zmiri-preemption-rate=0.01", "-Zmiri-preemption-rate=0.1 -Zmiri-compare-exchange-weak-failure-rate=0.5"]


def run(ctx):
    per_shard, chunk, ops = ctx.pick((1500, 1500, 40), (200_000, 50_000, 60))
    rep = ic.run_native(ctx, "c06", per_shard, chunk, threads=8, ops=ops, samples=2)
    v = ic.violations_for("C06", rep)
    inv, seeds, count = ctx.pick((8, 2, 2), (16, 16, 4))
    mrep = ic.run_miri(ctx, "c06", inv, seeds, count, threads=3, ops=8, variants=MIRI_VARIANTS)
    v += ic.violations_for("C06", mrep)
    tools = {"miri": {k: mrep.get(k, 0) for k in ("miri_invocations", "miri_seeds_requested", "miri_seeds_completed", "histories")},
             "miri_reports": len(mrep.get("miri_reports", [])),
             "miri_interleavings": ic.interleaving_summary(mrep),
             "miri_bucket_races": (mrep.get("extra") or {}).get("same_bucket_null_seen_by_n_threads", {})}
    more = 0
    if not ctx.quick():
        for flavour, n in (("tsan", 4000), ("asan", 6000), ("mca", 20000)):
            srep = ic.run_sanitized(ctx, "c06", flavour, n, threads=8, ops=40)
            v += ic.violations_for("C06", srep)
            more += srep.get("histories", 0)
            tools[flavour] = {"histories": srep.get("histories", 0), "report_blocks": len(srep.get("san_reports", [])),
                              "crashes": len(srep.get("crashes", [])),
                              "bucket_races": (srep.get("extra") or {}).get("same_bucket_null_seen_by_n_threads", {})}
    extra = rep.get("extra", {})
    cov = {
        "evaluations": rep.get("histories", 0) + mrep.get("histories", 0) + more,
        "distinct_nontrivial": len(rep.get("fp_nontrivial", ())),
        "rule": RULE,
        "samples": rep.get("samples", [])[:3],
        "events_recorded": rep.get("events", 0),
        "observed": rep.get("stats", {}),
        "hook_hits_by_site": rep.get("hook_hits", {}),
        "delays_injected": rep.get("delays_injected", 0),
        "rendezvous_met": rep.get("rendezvous_met", 0),
        "interleavings": ic.interleaving_summary(rep),
        "bucket_boundary_races_same_bucket_null_seen_by_n_threads": extra.get("same_bucket_null_seen_by_n_threads", {}),
        "histories_by_boundary": extra.get("histories_by_boundary", {}),
        "histories_by_element_type": extra.get("histories_by_elem", {}),
        "histories_by_delay_plan": extra.get("histories_by_plan", {}),
        "stamped_histories": extra.get("stamped_histories", 0),
        "native_crashes": len(rep.get("crashes", [])),
        "findings_not_listed": rep.get("findings_dropped", 0),
        "tools": tools,
    }
    return runner.finish(ctx, LEVEL, cov, v, assumptions=[
        "schedules are sampled (OS scheduler x delay plans x Miri scheduler seeds), not enumerated",
        "Refs reach other threads only through a Release/Acquire hand-off (the documented contract of get())",
        "half of the histories take SeqCst stamps around operations (needed for the len() bounds); the other half adds no "
        "monitor synchronisation besides the publication board",
        "Miri / TSan observe only the histories they are given; Miri histories use 2-3 threads and <= 8 operations each",
    ])


def replay(ctx, path):
    return run(ctx)
