"""C27 - generated TypeScript types describe the data actually provided.

(a) every <Type>/<name>/param_type.ts: the `data` object type of `<Type>__<name>__param` is compared
    A1 with the intent model (isogen's Decl/Sel tree; generated projects): exactly one property per selection, named by
       alias or name; server fields: `| null` at every level <=> schema nullability at that level, ReadonlyArray depth ==
       schema list depth; object fields recurse; refinements (asFoo) are nullable objects; __typename is a non-null
       scalar; client fields are `<Parent>__<name>__output_type` (LoadableField<param, output_type> when @loadable);
       __refetch is `<Type>____refetch__output_type`;
    A2 with the reader AST of the same client field as node evaluates it (probe model; all projects incl. checked-in):
       same keys at every level, Scalar/Linked nodes looked up in the schema (parsed by gqlref) for nullability and list
       depth, `isFallible` of the reader node <=> `| null` of the property.
(b) every <Type>/<name>/raw_response_type.ts against its operation (text as node reads it, parsed by gqlref) + schema:
    response key = alias or name, same key set per level, scalar vs object nesting, list depth and nullability from the
    schema field type, optional marker `?` <=> nullable.  Printer convention followed: a selection set with inline
    fragments is typed as a union with one object per type condition (shared fields + that fragment's fields)."""
import collections
import hashlib
import json
import os
import re

import e3_oracles
import gqlref
import isogen
import runner
import ts_types
from ts_types import gql_named, gql_sig, object_variants, wrapper_sig

LEVEL = "exploration"
RULE = ("seeded isogen projects (profiles core, names, plain, text; variants: nested list field types [[T]], [[T!]]!, [[T]!]; "
        "@updatable selections) with aliases, lists of nullable items, asFoo refinements on interfaces/unions, __typename, "
        "client fields reused at several positions, @loadable client fields, __refetch, plus the four checked-in projects "
        "(client pointers, link, exposed mutation fields); compiled with the real isograph_cli, artifacts evaluated by node. "
        "Every param_type.ts `data` type is parsed (pylib/ts_types.py) and compared with the intent model and with the reader "
        "AST + schema; every raw_response_type.ts with the response shape of its operation text + schema. Non-trivial: accepted "
        "program with >=1 param type containing a list or nested object property and >=1 raw response type compared; distinct "
        "by fingerprint of the (property kind, wrapper signature) multiset of the program.")


def iso_sig(t):
    if t[0] == "nonnull":
        return "!" + iso_sig(t[1])[1:]
    if t[0] == "list":
        return "?[" + iso_sig(t[1]) + "]"
    return "?T"


def sig_rule(got, want):
    """which clause of the statement a wrapper-signature mismatch breaks"""
    if got.count("[") != want.count("["):
        return "list-depth"
    return "nullability"


class Cmp:
    def __init__(self, c):
        self.c = c
        self.viol = []
        self.st = collections.Counter()
        self.features = collections.Counter()

    def v(self, rule, detail, what, extra=None):
        w = {"case": self.c.describe(), "replay": ts_types.replay_of(self.c)}
        w.update(extra or {})
        self.viol.append({"rule": rule, "signature": f"C27/{rule}/{detail}", "what": f"{self.c.cid}: {what}"[:400], "witness": w})

    def feat(self, kind, sig):
        self.features[f"{kind}:{sig}"] += 1
        self.st["properties_compared"] += 1
        self.st["prop_kind:" + kind] += 1
        if sig:
            self.st["wrapper:" + sig] += 1
            for f in ts_types.sig_features(sig):
                self.st["prop_feature:" + f] += 1


def _members(obj):
    """plain (non-accessor) members of an object type, in order"""
    return [m for m in obj["members"] if m["accessor"] is None]


def _keys_check(cmp, where, art, obj, want_keys, rule, kinds=None, dup=()):
    got = [m["name"] for m in _members(obj)]
    gc, wc = collections.Counter(got), collections.Counter(want_keys)
    if gc == wc:
        return True
    missing = sorted((wc - gc).elements())
    extra = sorted((gc - wc).elements())
    dups = [k for k, n in gc.items() if n > 1 and wc.get(k, 0) <= 1]
    if dups:
        detail = "duplicate-property"
        if all(k in dup for k in dups) and not missing and set(extra) <= set(dups):
            # shrunk cause: upstream of the type printer, the operation itself selects this response key twice
            detail = "duplicate-property:operation-lists-the-key-twice"
            cmp.st["raw_duplicate_keys_already_in_operation"] += 1
    elif missing and extra:
        detail = "property-named-differently"
    elif missing:
        detail = "selection-without-property"
    else:
        detail = "property-without-selection"
    if kinds and missing:
        detail += ":" + str(kinds.get(missing[0], "?"))
    if rule == "raw-keys" and not got and list(want_keys) == ["__typename"]:
        # shrunk cause: the query text printer writes `__typename` into an otherwise empty selection set
        detail = "placeholder-__typename-of-empty-selection-set-not-typed"
    cmp.v(rule, detail, f"{art} at {where or '<data>'}: selections/keys {sorted(want_keys)[:8]} but properties {got[:8]} (missing {missing[:3]}, extra {extra[:3]})",
          {"artifact": art, "path": where, "missing": missing, "extra": extra})
    return False


# ---------------------------------------------------------------------------
# (a) A1: intent model
# ---------------------------------------------------------------------------
def compare_intent(cmp, art, obj, sels, path):
    kinds = {s.key(): s.kind for s in sels}
    _keys_check(cmp, "/".join(path), art, obj, [s.key() for s in sels], "param-keys", kinds)
    by_name = {}
    for m in _members(obj):
        by_name.setdefault(m["name"], m)
    for s in sels:
        m = by_name.get(s.key())
        if m is None:
            continue
        where = "/".join(path + [s.key()])
        t = m["type"]
        if s.alias:
            cmp.st["aliased_properties"] += 1
        if s.kind in ("scalar", "typename") or (s.kind == "object" and s.ftype is not None):
            want = iso_sig(s.ftype)
            got, core = wrapper_sig(t)
            refinement = s.kind == "object" and s.name.startswith("as") and s.name[2:] == s.target and s.args == []
            kind = "typename" if s.kind == "typename" else "scalar" if s.kind == "scalar" else "refinement" if refinement else "object"
            cmp.feat(kind, want)
            if got != want:
                cmp.v("param-" + sig_rule(got, want), f"{kind}:type-{got}-schema-{want}",
                      f"{art} {where}: property type has wrapper {got}, schema field {s.parent}.{s.name}: {isogen.type_str(s.ftype)} is {want}",
                      {"artifact": art, "path": where})
            if s.kind == "object":
                if core is None or core["k"] != "object":
                    cmp.v("param-nesting", "object-field-without-object-type", f"{art} {where}: selection has a subselection but the property type is {core and core['k']}",
                          {"artifact": art, "path": where})
                else:
                    compare_intent(cmp, art, core, s.sels, path + [s.key()])
            elif core is not None and core["k"] == "object":
                cmp.v("param-nesting", "scalar-field-with-object-type", f"{art} {where}: scalar selection typed as an object", {"artifact": art, "path": where})
        elif s.kind == "client":
            tgt = s.target.replace(".", "__")
            loadable = "loadable" in s.directives
            cmp.feat("loadable-client-field" if loadable else "client-field", "")
            ok = False
            if loadable:
                ok = (t["k"] == "ref" and t["name"] == "LoadableField" and len(t["args"]) >= 2 and
                      t["args"][0] == {"k": "ref", "name": tgt + "__param", "args": []} and
                      t["args"][1] == {"k": "ref", "name": tgt + "__output_type", "args": []})
            else:
                ok = t == {"k": "ref", "name": tgt + "__output_type", "args": []}
            if not ok:
                cmp.v("param-client-field-type", "loadable" if loadable else "plain",
                      f"{art} {where}: client field {s.target} typed as {json.dumps(t)[:120]}", {"artifact": art, "path": where})
        elif s.kind == "refetch":
            cmp.feat("refetch", "")
            if t != {"k": "ref", "name": f"{s.parent}____refetch__output_type", "args": []}:
                cmp.v("param-client-field-type", "refetch", f"{art} {where}: __refetch typed as {json.dumps(t)[:120]}", {"artifact": art, "path": where})
        elif s.kind == "exposed":
            cmp.feat("exposed-field", "")
            if t != {"k": "ref", "name": f"{s.parent}__{s.name}__output_type", "args": []}:
                cmp.v("param-client-field-type", "exposed", f"{art} {where}: exposed field {s.name} typed as {json.dumps(t)[:120]}", {"artifact": art, "path": where})
        elif s.kind == "link":
            cmp.feat("link", "")
            if not (t["k"] == "ref" and t["name"].endswith("__link__output_type")):
                cmp.v("param-client-field-type", "link", f"{art} {where}: link typed as {json.dumps(t)[:120]}", {"artifact": art, "path": where})
        elif s.kind == "pointer":
            # client pointer selection: <wrapper per the pointer's `to` type> around LoadableField<P__name__param, {subselection}>
            got, core = wrapper_sig(t)
            want = iso_sig(s.ftype) if s.ftype is not None else None
            cmp.feat("pointer", want or "")
            if want is not None and got != want:
                cmp.v("param-" + sig_rule(got, want), f"pointer:type-{got}-declared-{want}", f"{art} {where}: client pointer wrapper {got}, declared {want}",
                      {"artifact": art, "path": where})
            if core is None or core["k"] != "ref" or core["name"] != "LoadableField" or len(core["args"]) < 2:
                cmp.v("param-client-field-type", "pointer", f"{art} {where}: client pointer typed as {json.dumps(t)[:120]}", {"artifact": art, "path": where})
            elif core["args"][1]["k"] == "object" and s.sels is not None:
                compare_intent(cmp, art, core["args"][1], s.sels, path + [s.key()])
        else:
            cmp.st["selection_kind_not_modelled:" + s.kind] += 1


# ---------------------------------------------------------------------------
# (a) A2: reader AST + schema
# ---------------------------------------------------------------------------
def collect_readers(model):
    out = {}

    def reader(r):
        if not isinstance(r, dict) or "readerAst" not in r:
            return
        if r.get("id") and r["id"] not in out:
            out[r["id"]] = r
        ast(r["readerAst"])

    def ast(nodes):
        for n in nodes or []:
            if n["kind"] == "Resolver":
                reader(n.get("reader"))
            elif n["kind"] == "Linked":
                reader(n.get("condition"))
                ast(n.get("selections"))
    for e in model["entrypoints"].values():
        reader(e.get("reader"))
    return out


def parse_to_type(text):
    """`[Foo!]!` -> (wrapper signature, base name)"""
    text = text.strip()
    if text.endswith("!"):
        s, b = parse_to_type(text[:-1])
        return "!" + s[1:], b
    if text.startswith("[") and text.endswith("]"):
        s, b = parse_to_type(text[1:-1])
        return "?[" + s + "]", b
    return "?T", text


def compare_reader(cmp, art, obj, nodes, parent, schema, pointers, path):
    def key(n):
        if n["kind"] in ("Scalar", "Linked"):
            return n["alias"] or n["fieldName"]
        return n.get("alias")
    kinds = {key(n): n["kind"] for n in nodes}
    _keys_check(cmp, "/".join(path), art, obj, [key(n) for n in nodes], "param-keys-vs-reader", kinds)
    by_name = {}
    for m in _members(obj):
        by_name.setdefault(m["name"], m)
    for n in nodes:
        m = by_name.get(key(n))
        if m is None:
            continue
        where = "/".join(path + [str(key(n))])
        t = m["type"]
        k = n["kind"]
        cmp.st["reader_nodes_compared"] += 1
        cmp.st["reader_node:" + k] += 1
        if k == "Scalar" or (k == "Linked" and n.get("condition") is None):
            fd = schema.field(parent, n["fieldName"])
            if fd is None:
                cmp.st["reader_field_not_in_schema(skipped)"] += 1
                continue
            want = gql_sig(fd["type"])
            got, core = wrapper_sig(t)
            if got != want:
                cmp.v("param-" + sig_rule(got, want), f"reader-{'scalar' if k == 'Scalar' else 'object'}:type-{got}-schema-{want}",
                      f"{art} {where}: property wrapper {got}, schema field {parent}.{n['fieldName']} is {want}", {"artifact": art, "path": where})
            if n.get("isFallible") is not None and bool(n["isFallible"]) != got.startswith("?"):
                cmp.v("param-nullability", "reader-isFallible-disagrees-with-type",
                      f"{art} {where}: reader node isFallible={n['isFallible']} but property wrapper is {got}", {"artifact": art, "path": where})
            cmp.st["reader_fallible_compared"] += 1
            if k == "Linked":
                if core is None or core["k"] != "object":
                    cmp.v("param-nesting", "linked-reader-node-without-object-type", f"{art} {where}: Linked reader node, property type {core and core['k']}",
                          {"artifact": art, "path": where})
                else:
                    compare_reader(cmp, art, core, n["selections"], gql_named(fd["type"]), schema, pointers, path + [str(key(n))])
            elif core is not None and core["k"] == "object":
                cmp.v("param-nesting", "scalar-reader-node-with-object-type", f"{art} {where}: Scalar reader node typed as an object", {"artifact": art, "path": where})
        elif k == "Linked":
            fname = n["fieldName"]
            cond = n.get("condition") or {}
            cid = cond.get("id") or ""
            got, core = wrapper_sig(t)
            if n.get("refetchQueryIndex") is None and fname.startswith("as") and fname[2:] in schema.types:
                cmp.st["reader_refinements"] += 1
                if got != "?T":
                    cmp.v("param-nullability", f"reader-refinement:type-{got}", f"{art} {where}: refinement {fname} typed with wrapper {got}", {"artifact": art, "path": where})
                if core is not None and core["k"] == "object":
                    compare_reader(cmp, art, core, n["selections"], fname[2:], schema, pointers, path + [fname])
                else:
                    cmp.v("param-nesting", "refinement-without-object-type", f"{art} {where}: refinement typed as {core and core['k']}", {"artifact": art, "path": where})
            else:
                cmp.st["reader_client_pointers"] += 1
                decl = pointers.get(tuple(cid.split("/", 1))) if "/" in cid else None
                if decl is None:
                    cands = [v for (pp, nn_), v in pointers.items() if nn_ == fname]
                    decl = cands[0] if len(cands) == 1 else None
                if core is None or core["k"] != "ref" or core["name"] != "LoadableField" or len(core["args"]) < 2:
                    cmp.v("param-client-field-type", "pointer", f"{art} {where}: client pointer typed as {json.dumps(t)[:100]}", {"artifact": art, "path": where})
                    continue
                if decl is None or not decl.get("to"):
                    cmp.st["reader_client_pointer_declaration_not_found(skipped)"] += 1
                    continue
                want, base = parse_to_type(decl["to"])
                if got != want:
                    cmp.v("param-" + sig_rule(got, want), f"pointer:type-{got}-declared-{want}", f"{art} {where}: pointer declared `to {decl['to']}`, wrapper {got}",
                          {"artifact": art, "path": where})
                if core["args"][1]["k"] == "object":
                    compare_reader(cmp, art, core["args"][1], n["selections"], base, schema, pointers, path + [fname])
        elif k == "Resolver":
            rid = (n.get("reader") or {}).get("id")
            if rid and "/" in rid:
                want = {"k": "ref", "name": rid.replace("/", "__") + "__output_type", "args": []}
                if t != want:
                    cmp.v("param-client-field-type", "reader-resolver", f"{art} {where}: Resolver node for {rid} typed as {json.dumps(t)[:100]}", {"artifact": art, "path": where})
        elif k == "ImperativelyLoadedField":
            if not (t["k"] == "ref" and t["name"].endswith(f"__{n.get('name')}__output_type")):
                cmp.v("param-client-field-type", "reader-imperatively-loaded", f"{art} {where}: {n.get('name')} typed as {json.dumps(t)[:100]}", {"artifact": art, "path": where})
        elif k == "LoadablySelectedField":
            if not (t["k"] == "ref" and t["name"] == "LoadableField" and len(t["args"]) >= 2 and t["args"][0]["k"] == "ref"
                    and t["args"][0]["name"].endswith(f"__{n.get('name')}__param")):
                cmp.v("param-client-field-type", "reader-loadable", f"{art} {where}: loadable {n.get('name')} typed as {json.dumps(t)[:100]}", {"artifact": art, "path": where})
        elif k == "Link":
            if not (t["k"] == "ref" and t["name"].endswith("__link__output_type")):
                cmp.v("param-client-field-type", "reader-link", f"{art} {where}: link typed as {json.dumps(t)[:100]}", {"artifact": art, "path": where})


# ---------------------------------------------------------------------------
# (b) raw response type vs operation
# ---------------------------------------------------------------------------
def _dup_keys(sels):
    n = collections.Counter((s["alias"] or s["name"]) for s in sels if s["kind"] == "Field")
    return {k for k, v in n.items() if v > 1}


def expected_variants(schema, parent, sels, dup=None):
    """[ {type, keys:{key:{name, sels:[...]}}, dup:set} ] following the printer's convention for inline fragments.
    dup: response keys the operation text itself lists more than once in one selection set."""
    fields, frags = collections.OrderedDict(), collections.OrderedDict()
    dup = _dup_keys(sels) if dup is None else dup
    for s in sels:
        if s["kind"] == "Field":
            k = s["alias"] or s["name"]
            e = fields.setdefault(k, {"name": s["name"], "sels": [], "has_sub": False})
            if s["selectionSet"] is not None:
                e["has_sub"] = True
                e["sels"] += s["selectionSet"]
        elif s["kind"] == "InlineFragment":
            frags.setdefault(e3_oracles.tc_name(s) or parent, []).extend(s["selectionSet"])
    if not frags:
        return [{"type": parent, "keys": fields, "dup": dup}]
    out = []
    shared = [s for s in sels if s["kind"] == "Field"]
    for tc, fsels in frags.items():
        out += expected_variants(schema, tc, shared + fsels, _dup_keys(shared) | _dup_keys(fsels))
    return out


def compare_raw(cmp, art, core, schema, parent, sels, path):
    want = expected_variants(schema, parent, sels)
    got = object_variants(core)
    where = "/".join(path)
    if got is None:
        cmp.v("raw-nesting", "selection-set-without-object-type", f"{art} at {where or '<root>'}: operation has a selection set, type is {core and core['k']}",
              {"artifact": art, "path": where})
        return
    cmp.st["raw_variants_expected"] += len(want)
    if len(want) > 1:
        cmp.st["raw_union_levels"] += 1

    def tn(o):
        for m in _members(o):
            if m["name"] == "__typename" and m["type"]["k"] == "lit":
                return m["type"]["value"]
        return None
    pairs, rest = [], list(got)
    for w in want:
        hit = None
        for o in rest:
            if tn(o) == w["type"]:
                hit = o
                break
        if hit is None and len(want) == 1 and len(rest) == 1:
            hit = rest[0]
        if hit is None:
            for o in rest:
                if tn(o) is None and sorted(m["name"] for m in _members(o)) == sorted(w["keys"]):
                    hit = o
                    break
        if hit is None:
            cmp.v("raw-variants", "no-object-for-type-condition", f"{art} at {where or '<root>'}: no union member for `... on {w['type']}` (members: {[tn(o) for o in got]})",
                  {"artifact": art, "path": where})
            continue
        rest.remove(hit)
        pairs.append((w, hit))
    if rest:
        cmp.v("raw-variants", "object-without-type-condition", f"{art} at {where or '<root>'}: {len(rest)} union member(s) correspond to no selection set of the operation",
              {"artifact": art, "path": where})
    for w, o in pairs:
        cmp.st["raw_objects_compared"] += 1
        _keys_check(cmp, where + (f"[on {w['type']}]" if len(want) > 1 else ""), art, o, list(w["keys"]), "raw-keys", dup=w["dup"])
        by_name = {}
        for m in _members(o):
            by_name.setdefault(m["name"], m)
        for k, e in w["keys"].items():
            m = by_name.get(k)
            if m is None:
                continue
            fd = schema.field(w["type"], e["name"])
            if fd is None:
                cmp.st["raw_field_not_in_schema(skipped)"] += 1
                continue
            cmp.st["raw_keys_compared"] += 1
            if k != e["name"]:
                cmp.st["raw_aliased_keys"] += 1
            want_sig = gql_sig(fd["type"])
            got_sig, c2 = wrapper_sig(m["type"])
            cmp.st["raw_wrapper:" + want_sig] += 1
            p2 = "/".join(path + [k])
            if got_sig != want_sig:
                cmp.v("raw-" + sig_rule(got_sig, want_sig), f"type-{got_sig}-schema-{want_sig}",
                      f"{art} {p2}: wrapper {got_sig}, schema field {w['type']}.{e['name']} is {want_sig}", {"artifact": art, "path": p2})
            if m["optional"] != want_sig.startswith("?"):
                cmp.v("raw-nullability", "optional-marker-disagrees-with-schema", f"{art} {p2}: optional={m['optional']} but schema wrapper {want_sig}",
                      {"artifact": art, "path": p2})
            if e["has_sub"]:
                cmp.st["raw_linked_keys"] += 1
                compare_raw(cmp, art, c2, schema, gql_named(fd["type"]), e["sels"], path + [k])
            elif c2 is not None and object_variants(c2) is not None:
                cmp.v("raw-nesting", "leaf-field-with-object-type", f"{art} {p2}: leaf field typed as an object", {"artifact": art, "path": p2})


# ---------------------------------------------------------------------------
def _read(path):
    with open(path, encoding="utf-8") as f:
        return f.read()


def analyze(c, spec):
    out = {"violations": [], "stats": {}, "nontrivial": False, "sample": None, "fp": None}
    if not c.result.ok() or c.model is None:
        out["stats"] = {"programs_rejected_by_compiler": 1}
        return out
    import cli_common as cc
    cmp = Cmp(c)
    st = cmp.st
    st["accepted_programs"] += 1
    adir = c.artifact_dir()
    schema = e3_oracles.build_ref_schema(c)
    files = c.model["files"]

    def load_alias(rel, alias):
        info = files.get(rel)
        if info is None:
            return None, "absent"
        if not info.get("syntax_ok"):
            st["type_files_with_syntax_errors(skipped; see C13)"] += 1
            return None, "syntax"
        try:
            aliases = ts_types.parse_type_aliases(_read(os.path.join(adir, rel)))
        except ts_types.TsParseError as e:
            raise runner.Inconclusive(f"{c.cid}: {rel} parses with node but not with pylib/ts_types.py: {e}")
        t = aliases.get(alias)
        if t is None:
            cmp.v("type-alias-missing", os.path.basename(rel), f"{rel} does not export type {alias}", {"artifact": rel})
            return None, "noalias"
        return t, None

    def data_of(rel, alias):
        t, why = load_alias(rel, alias)
        if t is None:
            return None, why
        if t["k"] != "object":
            cmp.v("param-shape", "param-type-is-not-an-object", f"{rel}: {alias} is {t['k']}", {"artifact": rel})
            return None, "shape"
        data = [m for m in t["members"] if m["name"] == "data"]
        if len(data) != 1 or data[0]["type"]["k"] != "object":
            cmp.v("param-shape", "no-data-object", f"{rel}: {alias} has no `data` object type", {"artifact": rel})
            return None, "shape"
        if any(m["name"] == "startUpdate" for m in t["members"]):
            st["param_types_with_startUpdate"] += 1
        return data[0]["type"], None

    # ---- (a) A1 intent model
    if c.project is not None:
        for d in c.project.decls:
            if d.kind == "entrypoint":
                continue
            rel = f"{d.parent}/{d.name}/param_type.ts"
            data, why = data_of(rel, f"{d.parent}__{d.name}__param")
            if data is None:
                if why == "absent":
                    cmp.v("param-type-missing", d.kind, f"no param_type.ts for {d.kind} {d.ident()}", {"artifact": rel})
                continue
            st["param_types_compared_with_intent"] += 1
            compare_intent(cmp, rel, data, d.sels, [])
    # ---- (a) A2 reader AST
    cfg = cc.read_config(c.root)
    pointers = {}
    for l in ts_types.scan_literals(c.root, os.path.join(c.root, cfg["project_root"]), adir):
        h = l["header"]
        if h and h["kind"] == "pointer":
            pointers[(h["parent"], h["name"])] = h
    readers = collect_readers(c.model)
    n_param_files = sum(1 for f in files if f.endswith("/param_type.ts"))
    st["param_type_files"] += n_param_files
    for rid, r in sorted(readers.items()):
        if "/" not in rid:
            continue
        parent, name = rid.split("/", 1)
        rel = f"{rid}/param_type.ts"
        if rel not in files:
            st["readers_without_param_type(refinement/link readers)"] += 1
            continue
        data, why = data_of(rel, f"{parent}__{name}__param")
        if data is None:
            continue
        st["param_types_compared_with_reader_ast"] += 1
        compare_reader(cmp, rel, data, r["readerAst"], parent, schema, pointers, [])
    # ---- (b) raw response types
    for key, e in sorted(c.model["entrypoints"].items()):
        rel = f"{key}/raw_response_type.ts"
        parent, name = key.split("/", 1)
        text = e3_oracles.op_text(c, e["operation"] or {})
        if text is None:
            st["operations_without_text(skipped)"] += 1
            continue
        if rel not in files:
            cmp.v("raw-response-type-missing", "entrypoint", f"entrypoint {key} has no raw_response_type.ts", {"artifact": rel})
            continue
        t, why = load_alias(rel, f"{parent}__{name}__raw_response_type")
        if t is None:
            continue
        try:
            doc = gqlref.parse_executable(text)
        except gqlref.GraphQLSyntaxError:
            st["unparsable_operation(skipped; see C09)"] += 1
            continue
        opdef = [d for d in doc["definitions"] if d["kind"] == "OperationDefinition"][0]
        st["raw_response_types_compared"] += 1
        compare_raw(cmp, rel, t, schema, schema.root(opdef["operation"]), opdef["selectionSet"], [])
    out["violations"] = cmp.viol
    out["stats"] = dict(st)
    interesting = st["prop_feature:list"] + st["prop_kind:object"] + st["prop_kind:refinement"] + st["reader_node:Linked"]
    out["nontrivial"] = interesting > 0 and st["raw_response_types_compared"] > 0
    out["fp"] = hashlib.sha1(repr(sorted(cmp.features.items()) + [st["raw_keys_compared"], st["reader_nodes_compared"]]).encode()).hexdigest()[:12]
    if out["nontrivial"] and c.kind == "generated":
        out["sample"] = {"case": c.describe(), "param_types_compared": st["param_types_compared_with_intent"],
                         "properties_by_kind_and_wrapper": dict(sorted(cmp.features.items())[:14]),
                         "raw_keys_compared": st["raw_keys_compared"], "reader_nodes_compared": st["reader_nodes_compared"]}
    return out


def run(ctx):
    cli = os.environ.get("VERIF_CLI_OVERRIDE") or runner.build_cli()   # override: development aid (mutation tests on a scratch copy)
    nested = {"nested_lists": True}
    upd = {"opts": {"updatable": True}}
    rt = {"nested_lists": True, "opts": {"pointers": True, "link": True, "exposed": True, "force_ids": True}}
    plan = [("core", None, ctx.pick(40, 1500)), ("core", nested, ctx.pick(35, 1200)), ("names", nested, ctx.pick(20, 600)),
            ("plain", nested, ctx.pick(15, 400)), ("text", None, ctx.pick(15, 500)), ("core", upd, ctx.pick(15, 300))]
    if hasattr(isogen.Generator, "make_pointer"):      # generator options added later by the runtime engine: client pointers, __link, exposed fields
        plan.append(("core", rt, ctx.pick(25, 500)))
    results = ts_types.run_cases(ctx, cli, plan, "c27", [("props.c27", "analyze")], with_checked_in=True, probe=True)
    key = "props.c27.analyze"
    violations, stats, samples, fps = [], collections.Counter(), [], set()
    accepted = nontrivial = 0
    rejected = []
    for r in results:
        a = r["results"].get(key)
        if not a:
            continue
        violations += a["violations"]
        stats.update(a["stats"])
        if r.get("ok"):
            accepted += 1
        elif len(rejected) < 3 and r.get("stderr_head"):
            rejected.append({"case": r["cid"], "stderr": re.sub(r"\s+", " ", r["stderr_head"])[:200]})
        if a["nontrivial"]:
            nontrivial += 1
            fps.add(a["fp"])
        if a.get("sample") and len(samples) < 3:
            samples.append(a["sample"])
    if accepted < len(results) * 0.5:
        raise runner.Inconclusive(f"only {accepted}/{len(results)} programs were accepted by the compiler: {rejected}")
    cov = {"evaluations": len(results), "distinct_nontrivial": len(fps), "rule": RULE, "samples": samples or [{"note": "none"}],
           "accepted_programs": accepted, "nontrivial_programs": nontrivial, "observed": dict(sorted(stats.items())),
           "rejected_examples": rejected}
    return runner.finish(ctx, LEVEL, cov, violations, assumptions=[
        "no TypeScript checker offline: the type files are parsed by pylib/ts_types.py (hand-written parser of the emitted type "
        "sub-language); files node's TypeScript stripper rejects are skipped here and reported by C13",
        "schema nullability / list structure come from the project's schema files parsed by pylib/gqlref.py (A2, b) and from "
        "isogen's intent model (A1); the JavaScript type chosen for a scalar (string/number/unknown) is not part of the statement",
        "raw response types: the printer's convention for selection sets with inline fragments (one union member per type "
        "condition holding shared + fragment fields; concrete types without a fragment are not represented; `?` on nullable "
        "keys) is followed, key sets / nesting / list structure are compared inside it",
        "reader ASTs come from the node probe, i.e. readers reachable from an entrypoint; unreachable client fields are "
        "covered by the intent-model comparison only; only the `data` member of a param type is compared",
    ])


def replay(ctx, path):
    return run(ctx)
