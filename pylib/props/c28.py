"""C28 - the SWC transform resolves each iso literal to the artifact the compiler wrote.

Real code on both sides:
  * compiler side: the real isograph_cli compiles generated projects; what it
    understood is read back from what it wrote: `__isograph/iso.ts` (one
    overload per declaration: `'<keyword> <Type>.<name>'`, and for entrypoints
    the import of the generated entrypoint artifact) and the `entrypoint.ts`
    files on disk;
  * plugin side: harness/swc_tools links crates/swc_isograph_plugin as an rlib,
    parses the very same source files with swc_ecma_parser, applies the pass
    built by `compile_iso_literal_visitor`, prints with swc_ecma_codegen.

Monitors (per iso call, "probe" = the call run through the pass on its own with
the file name / config of its module; per module = the whole file):
  A. every literal the compiler accepted: plugin must not error / panic, must
     classify it like the compiler (entrypoint vs field|pointer), must use the
     module form the config asks for, and for entrypoints the specifier must be
     a relative specifier (./ or ../) that, resolved against the source file's
     directory, is exactly the entrypoint.ts the compiler wrote;
  B. the printed transformed module must equal the printed "substituted by
     hand" module (text substitution of every iso call by what the probe showed:
     function argument / import identifier / require(..).default) - so every
     other statement is unchanged and calls behave in context as on their own;
  C. hoisted imports: exactly the (identifier, specifier) pairs of the
     module's entrypoint calls, no identifier imported twice.
"""
import hashlib
import json
import os
import random
import re
import shutil

import runner
from runner import Inconclusive, subseed

LEVEL = "exploration"
PID = "C28"

RULE = (
    "Seeded random isograph projects (schema with keyword-like type names; isograph.config.json with project_root x "
    "artifact_directory {absent, same, below, above, sibling, outside via ..} x module {absent, esmodule, commonjs}; "
    "3-6 source files .ts/.tsx/.js/.jsx at depth 0-4 incl. Next.js-style directory names) are compiled by the real "
    "CLI. Each file holds field / pointer declarations and entrypoint calls whose headers are printed from a token "
    "list with random gaps (empty, spaces, tabs, newlines, CRLF, form feed, U+FEFF) before the keyword, around the "
    "dot, before '(' '@' description '{' and 'to', names equal to / starting with keywords, variable parentheses, "
    "directives, string / block descriptions (some mentioning other declarations), plus 0-6 bystander statements "
    "(types, classes, enums, JSX, templates, look-alike calls). Entrypoint calls sit in 16 syntactic contexts, also "
    "nested inside the function passed to a field. Every literal is checked per monitors A-C. A header counts as "
    "non-trivial when the compiler accepted it and it differs from the canonical `keyword Type.name` spelling "
    "(non-canonical gap, keyword-like name, variables, directive or description); distinct = distinct header text "
    "with type/name/body abstracted plus file-to-artifact-directory relation plus module form."
)

KEYWORDS = ("entrypoint", "field", "pointer")

# ----------------------------------------------------------------------------
# schema
# ----------------------------------------------------------------------------
SCHEMA = """type Query {
  me: User
  n: Int
  echo(s: String): String
  users: [User!]!
  thing: fieldThing
  box: pointer_Box2
}

type Mutation {
  setName(name: String!): User
  bump: Int
  echo(s: String): String
}

type User {
  id: ID!
  name: String
  age: Int
  friend: User
}

type fieldThing {
  id: ID!
  label: String
  owner: User
}

type pointer_Box2 {
  id: ID!
  size: Int
  inner: fieldThing
}
"""

TYPES = {
    "Query": {"scalars": ["n"], "echo": True, "links": [("me", "User"), ("thing", "fieldThing"), ("box", "pointer_Box2")],
              "root": True},
    "Mutation": {"scalars": ["bump"], "echo": True, "links": [("setName(name: \"x\")", "User")], "root": True},
    "User": {"scalars": ["id", "name", "age"], "echo": False, "links": [("friend", "User")], "root": False},
    "fieldThing": {"scalars": ["id", "label"], "echo": False, "links": [("owner", "User")], "root": False},
    "pointer_Box2": {"scalars": ["id", "size"], "echo": False, "links": [("inner", "fieldThing")], "root": False},
}
SERVER_NAMES = {"me", "n", "echo", "users", "thing", "box", "setName", "bump", "id", "name", "age", "friend",
                "label", "owner", "size", "inner"}

# ----------------------------------------------------------------------------
# whitespace / header grammar
# ----------------------------------------------------------------------------
WS_COMMON = [" ", " ", " ", "  ", "\t", "\n", "\n  ", " \t", "\n\t", "\r\n", " \n ", "\n\n    "]
WS_RARE = ["\f", "\ufeff", " \f", "\ufeff ", "\f\n"]

CANON = {"lead": "", "kw-type": " ", "before-dot": "", "after-dot": "", "before-paren": "", "before-directive": " ",
         "before-description": " ", "before-brace": " ", "before-to": " ", "after-to": " ", "trail": ""}
MUST_SEPARATE = {"kw-type", "after-to"}      # identifier next to identifier

CHAR_CLASS = {" ": "space", "\t": "tab", "\n": "newline", "\r": "cr", "\f": "formfeed", "\ufeff": "bom"}


def gap(rng, name, force_nonempty=False, p_empty=None):
    canon = CANON[name]
    r = rng.random()
    if r < 0.45:
        v = canon
    elif r < 0.50:
        v = rng.choice(WS_RARE)
    else:
        if p_empty is None:
            p_empty = 0.35
        v = "" if rng.random() < p_empty else rng.choice(WS_COMMON)
    if (force_nonempty or name in MUST_SEPARATE) and v == "":
        v = rng.choice(WS_COMMON)
    return v


def value_class(v):
    if v == "":
        return "none"
    cs = sorted({CHAR_CLASS.get(c, "other") for c in v})
    return "+".join(cs)


FEATURE_LABEL = {
    ("before-dot", "space"): "space-before-dot",
    ("after-dot", "space"): "space-after-dot",
    ("before-directive", "none"): "directive-without-space",
    ("before-description", "none"): "description-without-space",
    ("before-brace", "none"): "brace-without-space",
    ("before-paren", "space"): "space-before-variable-parentheses",
}


def feature_label(gapname, v):
    c = value_class(v)
    return FEATURE_LABEL.get((gapname, c), f"{gapname}={c}")


class Header:
    """tokens with the gap in front of each: elems = [(gapname, ws, token, optgroup)], trail"""

    def __init__(self, kind, type_, name, elems, trail):
        self.kind, self.type, self.name, self.elems, self.trail = kind, type_, name, elems, trail

    def text(self):
        return "".join(ws + tok for (_g, ws, tok, _o) in self.elems) + self.trail

    def clone(self):
        return Header(self.kind, self.type, self.name, list(self.elems), self.trail)

    def noncanonical(self):
        out = [(g, ws) for (g, ws, _t, _o) in self.elems if ws != CANON[g]]
        if self.trail != CANON["trail"]:
            out.append(("trail", self.trail))
        return out

    def shape(self):
        """header with type / name / body abstracted (for distinctness)"""
        parts = []
        for (g, ws, tok, o) in self.elems:
            if g == "kw-type" or g == "after-to":
                tok = "T"
            elif g == "after-dot":
                tok = "kwname" if any(tok.startswith(k) for k in KEYWORDS) else "name"
            elif g == "before-brace":
                tok = "{}"
            elif g == "before-description":
                tok = '"""' if tok.startswith('"""') else '"'
            parts.append(ws + tok)
        return "".join(parts) + self.trail

    def is_nontrivial(self):
        if self.noncanonical():
            return True
        if any(o for (_g, _w, _t, o) in self.elems):
            return True
        return any(self.name.startswith(k) for k in KEYWORDS)


def make_body(rng, type_, use_var, pointer_link=None):
    info = TYPES[type_]
    sels = []
    if pointer_link is not None:
        sels.append(pointer_link + " {\n      __link\n    }")
    n = rng.randint(0 if sels else 1, 2)
    for s in rng.sample(info["scalars"], min(n, len(info["scalars"]))):
        sels.append(s)
    if use_var:
        sels.append("echo(s: $v)")
    rng.shuffle(sels)
    out = "{" + rng.choice(["\n    ", " ", "\n", ""])
    for s in sels:
        out += s + rng.choice([",", "\n    ", ",\n    ", "\n"])
    return out + "}"


DESCRIPTIONS = [
    '"a short description"', '"see entrypoint Query.Home for usage"', '"""\n  Block description.\n  """',
    '"""the field Query.Other does not exist"""', '"pointer User.bestFriend to User"', '"(deprecated) @component"',
]


def field_header(rng, type_, name):
    info = TYPES[type_]
    use_var = info["echo"] and rng.random() < 0.3
    elems = [("lead", gap(rng, "lead", p_empty=0.5), "field", None),
             ("kw-type", gap(rng, "kw-type"), type_, None),
             ("before-dot", gap(rng, "before-dot"), ".", None),
             ("after-dot", gap(rng, "after-dot"), name, None)]
    if use_var:
        elems.append(("before-paren", gap(rng, "before-paren"),
                      rng.choice(["($v: String)", "( $v : String )", "($v:String,)", "(\n    $v: String\n  )"]), "vars"))
    if rng.random() < 0.4:
        elems.append(("before-directive", gap(rng, "before-directive"), "@component", "directive"))
    if rng.random() < 0.25:
        elems.append(("before-description", gap(rng, "before-description"), rng.choice(DESCRIPTIONS), "description"))
    elems.append(("before-brace", gap(rng, "before-brace"), make_body(rng, type_, use_var), None))
    return Header("field", type_, name, elems, gap(rng, "trail", p_empty=0.5))


def pointer_header(rng, type_, name):
    info = TYPES[type_]
    link, target = rng.choice(info["links"])
    use_var = info["echo"] and rng.random() < 0.25
    elems = [("lead", gap(rng, "lead", p_empty=0.5), "pointer", None),
             ("kw-type", gap(rng, "kw-type"), type_, None),
             ("before-dot", gap(rng, "before-dot"), ".", None),
             ("after-dot", gap(rng, "after-dot"), name, None)]
    if use_var:
        elems.append(("before-paren", gap(rng, "before-paren"), "($v: String)", "vars"))
    elems.append(("before-to", gap(rng, "before-to", force_nonempty=not use_var), "to", None))
    elems.append(("after-to", gap(rng, "after-to"), target, None))
    if rng.random() < 0.25:
        elems.append(("before-description", gap(rng, "before-description"), rng.choice(DESCRIPTIONS), "description"))
    elems.append(("before-brace", gap(rng, "before-brace"), make_body(rng, type_, use_var, pointer_link=link), None))
    return Header("pointer", type_, name, elems, gap(rng, "trail", p_empty=0.5))


LAZY = ["@lazyLoad", "@lazyLoad()", "@lazyLoad(reader: true)", "@lazyLoad(reader: true, normalization: true)",
        "@lazyLoad(\n  normalization: true\n)"]


def entrypoint_header(rng, type_, name, lazy):
    elems = [("lead", gap(rng, "lead", p_empty=0.5), "entrypoint", None),
             ("kw-type", gap(rng, "kw-type"), type_, None),
             ("before-dot", gap(rng, "before-dot"), ".", None),
             ("after-dot", gap(rng, "after-dot"), name, None)]
    if lazy is not None:
        elems.append(("before-directive", gap(rng, "before-directive"), lazy, "directive"))
    return Header("entrypoint", type_, name, elems, gap(rng, "trail", p_empty=0.5))


NAME_STEMS = ["Home", "userCard", "Avatar", "x", "Row", "list_item", "PetDetail", "a1", "Z"]
KW_SUFFIX = ["", "Foo", "X", "_1", "er", "s", "Query", "2"]


def make_name(rng, used):
    r = rng.random()
    if r < 0.45:
        n = rng.choice(NAME_STEMS) + rng.choice(["", "", "2", "_b", "View"])
    elif r < 0.85:
        n = rng.choice(KEYWORDS + ("to", "iso")) + rng.choice(KW_SUFFIX)
    else:
        n = "_" + rng.choice(NAME_STEMS)
    base, i = n, 0
    while n in used or n in SERVER_NAMES:
        i += 1
        n = f"{base}{i}"
    used.add(n)
    return n


# ----------------------------------------------------------------------------
# modules: items are lists of parts (str | Site)
# ----------------------------------------------------------------------------
class Site:
    def __init__(self, sid, header, pre, post, fn_parts, ctx_label):
        self.sid, self.header, self.pre, self.post, self.fn, self.ctx = sid, header, pre, post, fn_parts, ctx_label
        self.literal = header.text()
        self.file = None
        self.syntax = None


def all_sites(parts):
    for p in parts:
        if isinstance(p, Site):
            yield p
            if p.fn:
                yield from all_sites(p.fn)


def render_source(parts):
    out = []
    for p in parts:
        if isinstance(p, str):
            out.append(p)
        else:
            s = "iso(" + p.pre + "`" + p.literal + "`" + p.post + ")"
            if p.fn is not None:
                s += "(" + render_source(p.fn) + ")"
            out.append(s)
    return "".join(out)


def render_expected(parts, decisions):
    out = []
    for p in parts:
        if isinstance(p, str):
            out.append(p)
            continue
        d = decisions[p.sid]
        c = d["class"]
        if c == "field" and p.fn is not None:
            out.append(render_expected(p.fn, decisions))
        elif c == "entrypoint" and d.get("how") == "import":
            out.append(d["ident"])
        elif c == "entrypoint" and d.get("how") == "require":
            out.append("require(" + json.dumps(d["spec"], ensure_ascii=False) + ").default")
        elif c == "identity":
            out.append("(x)=>x")
        else:   # kept: the pass returns the call untouched, nested calls included
            out.append(render_source([p]))
    return "".join(out)


# bystanders: (label, text, needs) needs in {"", "ts", "jsx", "tsjsx"}; {u} = unique suffix
BYSTANDERS = [
    ("import-react", "import React, {{ useMemo as useMemo{u} }} from 'react';", ""),
    ("import-side-effect", "import './styles{u}.css';", ""),
    ("function", "function helper{u}(a, b = 2, ...rest) {{\n  return a + b + rest.length;\n}}", ""),
    ("class", "export class Store{u} extends Base {{\n  static count = 0;\n  #secret = 1;\n  get value() {{ return this.#secret; }}\n  async *items() {{ yield* [1, 2]; }}\n}}", ""),
    ("template", "const msg{u} = `hello ${{helper(1)}} and ${{`nested ${{2}}`}}`;", ""),
    ("tagged-template", "const q{u} = gql`query Q {{ me {{ id }} }}`;", ""),
    ("lookalike-call", "const la{u} = iso2(`field Query.nothing {{ n }}`)((x) => x);", ""),
    ("lookalike-member", "const lm{u} = tools.isoX(`entrypoint Query.Nope`);", ""),
    ("regex-and-ops", "const re{u} = /iso\\(`[a-z]+`\\)/gi.test(String(1 ?? 2)) ? 1 ** 2 : a?.b?.[0];", ""),
    ("object", "const obj{u} = {{ a: 1, 'b-c': [1, , 3], [`k${{1}}`]: () => {{}}, get g() {{ return 1; }}, ...spread }};", ""),
    ("loop", "for (const [k, v] of Object.entries(obj)) {{\n  if (!v) continue;\n  console.log(k, v);\n}}", ""),
    ("try", "try {{\n  risky();\n}} catch {{\n  recover();\n}} finally {{\n  done();\n}}", ""),
    ("export-list", "export {{ helper{u} as default{u} }};", "needs-helper"),
    ("string-with-literal-text", "const doc{u} = 'call iso with entrypoint Query.Home to load';", ""),
    ("comment", "// iso(`entrypoint Query.Commented`) is commented out\nconst afterComment{u} = 1;", ""),
    ("type-alias", "type Props{u}<T extends object = {{}}> = {{ readonly [K in keyof T]?: T[K] }} & {{ id: string }};", "ts"),
    ("interface", "export interface Thing{u} extends Base {{\n  name: string;\n  cb(x: number): void;\n}}", "ts"),
    ("enum", "enum Color{u} {{ Red = 1, Green, Blue = 'b'.length }}", "ts"),
    ("typed-function", "export function typed{u}<T>(x: T, y?: number): asserts x is NonNullable<T> {{\n  if (x == null) throw new Error('no');\n}}", "ts"),
    ("satisfies-as", "const cfg{u} = {{ a: 1 }} as const satisfies Record<string, number>;", "ts"),
    ("abstract-class", "abstract class Shape{u} {{\n  constructor(private readonly n: number, public label?: string) {{}}\n  abstract area(): number;\n}}", "ts"),
    ("import-type", "import type {{ FC{u} }} from 'react';", "ts"),
    ("declare", "declare const injected{u}: number;", "ts"),
    ("jsx-component", "export const View{u} = (props) => (\n  <section className=\"a\" {{...props}}>\n    <>text {{props.n}}</>\n    <Child.Inner render={{() => <b>x</b>}} />\n  </section>\n);", "jsx"),
    ("tsx-generic", "export function List{u}<T,>({{ items }}: {{ items: T[] }}) {{\n  return <ul>{{items.map((i, k) => <li key={{k}}>{{String(i)}}</li>)}}</ul>;\n}}", "tsjsx"),
]

# entrypoint contexts: (label, template with %s, needs)
EP_CONTEXTS = [
    ("const-init", "const ep{u} = %s;", ""),
    ("export-const", "export const ep{u} = %s;", ""),
    ("call-argument", "export function useThing{u}() {{\n  return useLazyReference(%s, {{ id: 1 }});\n}}", ""),
    ("array-element", "const arr{u} = [1, %s, 'x'];", ""),
    ("object-property", "const o{u} = {{ entry: %s, other: 2 }};", ""),
    ("class-static", "export class Loader{u} {{\n  static ep = %s;\n  load() {{\n    return this.ep;\n  }}\n}}", ""),
    ("if-block", "if (typeof window !== 'undefined') {{\n  register(%s);\n}}", ""),
    ("conditional", "const c{u} = flag ? %s : null;", ""),
    ("arrow-body", "const f{u} = () => %s;", ""),
    ("async-await", "const g{u} = async () => {{\n  await load(%s);\n}};", ""),
    ("parenthesised", "const p{u} = (%s);", ""),
    ("template-substitution", "const t{u} = `prefix ${{describe(%s)}} suffix`;", ""),
    ("default-parameter", "function withDefault{u}(e = %s) {{\n  return e;\n}}", ""),
    ("as-expression", "const as{u} = %s as unknown;", "ts"),
    ("non-null", "const nn{u} = %s!;", "ts"),
    ("jsx-attribute", "export const Page{u} = () => <Loader entrypoint={{%s}} fallback={{null}} />;", "jsx"),
]

# functions passed to field / pointer: (label, parts builder, needs); {N} unique; %s = optional nested entrypoint
FN_FORMS = [
    ("function-expression", "function Comp{u}({{ data }}) {{\n  return data;\n}}", "", False),
    ("arrow-expression", "({{ data }}) => data", "", False),
    ("arrow-block", "({{ data }}) => {{\n  const v = data;\n  return v;\n}}", "", False),
    ("identifier", "implementation{u}", "", False),
    ("wrapped-call", "memo(function Inner{u}(props) {{ return props.data; }})", "", False),
    ("async-function", "async function Load{u}({{ data }}) {{\n  return await data;\n}}", "", False),
    ("nested-entrypoint", "function Outer{u}({{ data }}) {{\n  const {{ fragmentReference }} = useLazyReference(%s, {{}});\n  return [data, fragmentReference];\n}}", "", True),
    ("nested-entrypoint-arrow", "({{ data }}) => useLazyReference(%s, {{ id: data.id }})", "", True),
    ("typed-params", "function Typed{u}({{ data }}: {{ data: any }}, props: {{ a?: number }}): unknown {{\n  return data;\n}}", "ts", False),
    ("jsx-body", "function Card{u}({{ data }}) {{\n  return <div className=\"card\">{{data.n}}</div>;\n}}", "jsx", False),
]


def allowed(needs, syntax):
    if needs in ("", "needs-helper"):
        return True
    if needs == "ts":
        return syntax in ("ts", "tsx")
    if needs == "jsx":
        return syntax in ("tsx", "jsx")
    if needs == "tsjsx":
        return syntax == "tsx"
    return False


DIR_NAMES = ["a", "b", "ui", "routes", "(main)", "[id]", "@modal", "my.dir", "Pet", "deep", "héllo", "with space"]
FILE_STEMS = ["index", "HomeRoute", "page", "pet.card", "Avatar", "use-thing", "x"]


class Project:
    pass


def build_project(seed):
    rng = random.Random(seed)
    P = Project()
    P.seed = seed
    # ---- config
    pr_choices = ["./src/components", "src", ".", "./src/", "./packages/web/src", "src/app"]
    pr = rng.choice(pr_choices)
    pr_norm = os.path.normpath(pr)
    r = rng.random()
    if r < 0.16:
        ad, rel = None, "same"
    elif r < 0.28:
        ad, rel = pr, "same"
    elif r < 0.46:
        ad, rel = os.path.join(pr_norm, rng.choice(["gen", "generated/iso", "deep/er/out", ".generated", ".iso/out", "..gen"])), "below"
    elif r < 0.60 and pr_norm != ".":
        ad, rel = os.path.dirname(pr_norm) or ".", "above"
    elif r < 0.78:
        ad, rel = rng.choice(["generated", "build/iso", ".cache/iso"]), "sibling"
    elif r < 0.90:
        ad, rel = rng.choice(["../shared/gen", "../generated"]), "outside"
    else:
        ad, rel = ".", "root"
    if ad is not None:
        if rng.random() < 0.5 and not ad.startswith(".") and ad != ".":
            ad = "./" + ad
        if rng.random() < 0.2 and not ad.endswith("/") and ad not in (".",):
            ad = ad + "/"
    P.project_root, P.artifact_directory, P.artifact_relation = pr, ad, rel
    mod = rng.choice([None, "esmodule", "commonjs", "commonjs", "esmodule"])
    P.module = mod
    P.module_form = "require" if mod == "commonjs" else "import"
    cfg = {"project_root": pr, "schema": "./schema.graphql"}
    if ad is not None:
        cfg["artifact_directory"] = ad
    opts = {}
    if mod is not None:
        opts["module"] = mod
    if rng.random() < 0.3:
        opts["include_file_extensions_in_import_statements"] = True
    if rng.random() < 0.15:
        opts["no_babel_transform"] = False
    if opts or rng.random() < 0.5:
        cfg["options"] = opts
    P.config = cfg

    # ---- declarations
    used = {t: set() for t in TYPES}
    nfiles = rng.randint(3, 6)
    files = []
    for fi in range(nfiles):
        depth = rng.choice([0, 0, 1, 1, 2, 3, 4])
        dirs = [rng.choice(DIR_NAMES) for _ in range(depth)]
        ext = rng.choice(["tsx", "tsx", "ts", "ts", "js", "jsx"])
        stem = rng.choice(FILE_STEMS) + str(fi)
        rel_in_root = os.path.join(*dirs, f"{stem}.{ext}") if dirs else f"{stem}.{ext}"
        files.append({"rel": os.path.normpath(os.path.join(pr_norm, rel_in_root)), "syntax": ext, "depth": depth,
                      "decls": [], "eps": [], "mark": rng.random() < 0.5})
    P.files = files
    decls = []
    for f in files:
        for _ in range(rng.randint(1, 4)):
            type_ = rng.choice(["Query", "Query", "Query", "Mutation", "User", "fieldThing", "pointer_Box2"])
            name = make_name(rng, used[type_])
            if rng.random() < 0.2:
                h = pointer_header(rng, type_, name)
            else:
                h = field_header(rng, type_, name)
            d = {"header": h, "file": f}
            f["decls"].append(d)
            decls.append(d)
    # ---- entrypoint literals
    root_fields = [d for d in decls if d["header"].kind == "field" and TYPES[d["header"].type]["root"]]
    ep_plans = []   # (file, header)
    for d in root_fields:
        if rng.random() < 0.8:
            # every call site of one entrypoint has to agree on laziness: one directive text per declaration
            lazy = rng.choice(LAZY) if rng.random() < 0.35 else None
            for _ in range(rng.choice([1, 1, 2, 3])):
                ep_plans.append((rng.choice(files), entrypoint_header(rng, d["header"].type, d["header"].name, lazy)))
    rng.shuffle(ep_plans)

    # ---- assemble modules
    sid = [0]
    P.sites = []

    def new_site(header, fn_parts, ctx):
        s = Site(sid[0], header, rng.choice(["", "", "\n  ", " "]), rng.choice(["", "", ",", ",\n", "\n"]), fn_parts, ctx)
        sid[0] += 1
        return s

    by_file = {id(f): [] for f in files}
    for (f, h) in ep_plans:
        by_file[id(f)].append(h)
    uniq = [0]

    def u():
        uniq[0] += 1
        return str(uniq[0])

    for f in files:
        syntax = f["syntax"]
        pending_eps = by_file[id(f)]
        items = []   # (label, parts)
        helper_declared = False
        # field / pointer sites
        for d in f["decls"]:
            forms = [x for x in FN_FORMS if allowed(x[2], syntax) and (not x[3] or pending_eps)]
            label, tmpl, _needs, nested = rng.choice(forms)
            text = tmpl.format(u=u())
            if nested:
                eh = pending_eps.pop()
                es = new_site(eh, None, "nested-in-field-function")
                a, b = text.split("%s")
                fn_parts = [a, es, b]
            else:
                fn_parts = [text]
            s = new_site(d["header"], fn_parts, "fn=" + label)
            export = rng.choice(["{n}", "{n}Field", "_{n}", "$x{n}"]).format(n=re.sub(r"\W", "_", d["header"].name)) + u()
            items.append((f"site:{d['header'].kind}:fn={label}", [f"export const {export} = ", s, ";"]))
        # entrypoint sites
        default_used = False
        while pending_eps:
            eh = pending_eps.pop()
            if not default_used and rng.random() < 0.08:
                default_used = True
                s = new_site(eh, None, "export-default")
                items.append(("site:entrypoint:export-default", ["export default ", s, ";"]))
                continue
            ctxs = [c for c in EP_CONTEXTS if allowed(c[2], syntax)]
            label, tmpl, _n = rng.choice(ctxs)
            text = tmpl.format(u=u())
            a, b = text.split("%s")
            s = new_site(eh, None, label)
            items.append((f"site:entrypoint:{label}", [a, s, b]))
        # bystanders
        for _ in range(rng.randint(0, 6)):
            cands = [b for b in BYSTANDERS if allowed(b[2], syntax)]
            label, tmpl, needs = rng.choice(cands)
            if needs == "needs-helper":
                if helper_declared:
                    continue
                helper_declared = True
                k = u()
                items.append(("bystander:function", [f"function helper{k}() {{}}"]))
                items.append(("bystander:export-list", [f"export {{ helper{k} as renamed{k} }};"]))
                continue
            items.append(("bystander:" + label, [tmpl.format(u=u())]))
        rng.shuffle(items)
        head = []
        if rng.random() < 0.25:
            head.append(("directive", [rng.choice(["'use client';", '"use strict";'])]))
        head.append(("import-iso", [rng.choice(["import { iso } from '@iso';", "import { iso } from '../__isograph/iso';",
                                                 "const { iso } = require('@iso');"])]))
        f["items"] = head + items
        for (_l, parts) in f["items"]:
            for s in all_sites(parts):
                s.file, s.syntax = f, syntax
                P.sites.append(s)
    return P


def module_source(items):
    return "\n".join(render_source(p) for (_l, p) in items) + "\n"


def module_expected(items, decisions, created_imports):
    lines = []
    i = 0
    while i < len(items) and items[i][0] == "directive":
        lines.append(render_expected(items[i][1], decisions))
        i += 1
    for (local, src) in created_imports:
        lines.append(f"import {local} from {json.dumps(src, ensure_ascii=False)};")
    for (_l, parts) in items[i:]:
        lines.append(render_expected(parts, decisions))
    return "\n".join(lines) + "\n"


# ----------------------------------------------------------------------------
# running the real things
# ----------------------------------------------------------------------------
class Env:
    def __init__(self, ctx):
        self.ctx = ctx
        self.cli = runner.build_cli()
        self.tool = os.path.join(runner.cargo_build(["swc_tools"]), "swc_tools")


def run_tool(env, jobs):
    if not jobs:
        return []
    data = "\n".join(json.dumps(j, ensure_ascii=False) for j in jobs).encode("utf-8")
    rc, out, err = runner.sh([env.tool, "transform"], input=data, timeout=600)
    if rc != 0:
        raise Inconclusive(f"swc_tools exited with {rc}: {err[-300:]}")
    try:
        rep = json.loads(out)
    except ValueError:
        raise Inconclusive("swc_tools printed no JSON report")
    res = rep.get("results", [])
    if len(res) != len(jobs) or rep.get("bad_lines"):
        raise Inconclusive("swc_tools report does not match the batch")
    return res


PLAIN_IDENT = re.compile(r"^[A-Za-z_$][A-Za-z0-9_$]*$")
PLAIN_SPEC = re.compile(r"^[^\x00-\x1f\x7f\"'\\\ufeff\u2028\u2029]*$")
OVERLOAD_RE = re.compile(r"MatchesWhitespaceAndString<'(\w+) ([^.' ]+)\.([^' ]+)', T>\n\): ([^;]+);")
IMPORT_RE = re.compile(r"^import (entrypoint_\w+) from '([^']+)';$", re.M)


def read_compiler_truth(app_dir, cfg):
    """what the compiler wrote: {(keyword, Type, name): abs path of entrypoint.ts | None}"""
    base = cfg.get("artifact_directory") or cfg["project_root"]
    art = os.path.normpath(os.path.join(app_dir, base, "__isograph"))
    iso_ts = os.path.join(art, "iso.ts")
    try:
        text = open(iso_ts, encoding="utf-8").read()
    except OSError:
        return None, art
    imports = dict(IMPORT_RE.findall(text))
    truth = {}
    for kw, t, n, ret in OVERLOAD_RE.findall(text):
        path = None
        if kw == "entrypoint":
            m = re.match(r"typeof (entrypoint_\w+)$", ret.strip())
            if m and m.group(1) in imports:
                p = os.path.normpath(os.path.join(art, imports[m.group(1)]))
                if not p.endswith(".ts"):
                    p += ".ts"
                path = p if os.path.isfile(p) else None
        truth[(kw, t, n)] = path
    return truth, art


def write_project(P, pdir):
    app = os.path.join(pdir, "app")
    os.makedirs(app, exist_ok=True)
    with open(os.path.join(app, "schema.graphql"), "w") as f:
        f.write(SCHEMA)
    with open(os.path.join(app, "isograph.config.json"), "w") as f:
        json.dump(P.config, f, indent=1)
    for fl in P.files:
        path = os.path.join(app, fl["rel"])
        os.makedirs(os.path.dirname(path), exist_ok=True)
        fl["source"] = module_source(fl["items"])
        with open(path, "w", encoding="utf-8", newline="") as f:
            f.write(fl["source"])
    return app


def compile_project(env, app, from_parent=False):
    """from_parent: run from the directory above the config (monorepo layout). The compiler cannot express an
    artifact directory outside its working directory (it panics in generate_function_import_statement), so
    projects whose artifact_directory starts with ../ are compiled from one level up."""
    if from_parent:
        rc, out, err = runner.sh([env.cli, "--config", "app/isograph.config.json"], cwd=os.path.dirname(app), timeout=300)
    else:
        rc, out, err = runner.sh([env.cli, "--config", "isograph.config.json"], cwd=app, timeout=300)
    text = out + err
    return (rc == 0 and "Success" in text), text


def probe_job(site, app, cfg, literal=None, jid=None):
    return {"id": site.sid if jid is None else jid, "kind": "probe", "root_dir": app, "file": site.file["rel"],
            "config": cfg, "literal": site.literal if literal is None else literal, "with_fn": site.fn is not None,
            "syntax": site.syntax, "mark": site.file["mark"]}


def resolve_spec(app, file_rel, spec):
    return os.path.normpath(os.path.join(os.path.dirname(os.path.join(app, file_rel)), spec))


def judge_probe(kind, type_, name, module_form, file_rel, app, truth_path, p):
    """-> list of (rule, detail) for one iso call; truth_path: artifact for (Type,name) (entrypoints)"""
    if "panic" in p:
        return [("plugin-panics", p["panic"][:160])]
    if "parse_error" in p or "config_error" in p:
        return [("HARNESS", p.get("parse_error") or p.get("config_error"))]
    cls = p.get("class")
    if cls == "kept" or p.get("diagnostics"):
        msg = (p.get("diagnostics") or [{}])[0].get("msg", "call left in place")
        return [("plugin-errors", msg)]
    out = []
    if kind == "entrypoint":
        if cls != "entrypoint":
            return [("classification-differs", f"compiler: entrypoint, plugin: {cls}")]
        if p.get("how") != module_form:
            out.append(("wrong-module-form", f"config asks for {module_form}, plugin emitted {p.get('how')}"))
        spec = p.get("spec", "")
        if not (spec.startswith("./") or spec.startswith("../")):
            out.append(("specifier-not-relative", spec))
        else:
            got = resolve_spec(app, file_rel, spec)
            ok = got == truth_path or got + ".ts" == truth_path
            if not ok:
                out.append(("wrong-artifact-path", f"{spec} -> {os.path.relpath(got, app)} but compiler wrote "
                                                   f"{os.path.relpath(truth_path, app)}"))
    else:
        if cls == "entrypoint":
            return [("classification-differs", f"compiler: {kind}, plugin: entrypoint")]
        if cls != "field":
            return [("field-not-replaced-by-argument", f"plugin output class {cls}")]
    return out


class ProjectRun:
    """One generated project, in three stages so that a shard needs only two swc_tools processes
    for all of its projects: stage1 (write, compile, read what the compiler wrote) -> jobs for
    round 1 (probes + whole modules); stage2 (monitor A, C; hand substitution) -> jobs for round 2
    (print the substituted modules); stage3 (monitor B)."""

    def __init__(self, env, index):
        self.env, self.index = env, index
        self.seed = subseed(env.ctx.seed, "c28-project", index)
        self.pdir = os.path.join(env.ctx.work, f"p{index}")
        self.R = {"index": index, "seed": self.seed, "projects": 1, "compiled": 0, "rejected": 0, "sites": 0,
                  "shapes": set(), "fails": [], "module_fails": [], "stats": {}, "sample": None,
                  "reject_sample": None, "harness": []}
        self.live = False
        self.idx2 = []

    def bump(self, k, n=1):
        st = self.R["stats"]
        st[k] = st.get(k, 0) + n

    def cleanup(self):
        if not any(m.get("needs_shrink") for m in self.R["module_fails"]):
            shutil.rmtree(self.pdir, ignore_errors=True)

    # ---- stage 1
    def stage1(self):
        env, R, seed = self.env, self.R, self.seed
        P = self.P = build_project(seed)
        app = self.app = write_project(P, self.pdir)
        ok, text = compile_project(env, app, from_parent=(P.artifact_relation == "outside"))
        if not ok:
            R["rejected"] = 1
            R["reject_sample"] = {"project_seed": seed, "output": re.sub(r"\x1b\[[0-9;]*m", "", text)[-1200:]}
            return []
        R["compiled"] = 1
        truth, art = read_compiler_truth(app, P.config)
        if truth is None:
            R["harness"].append(f"project {seed}: iso.ts missing after successful compile")
            return []
        self.truth, self.art = truth, art
        on_disk = set()
        for dp, _dn, fn in os.walk(art):
            if "entrypoint.ts" in fn:
                on_disk.add(os.path.join(dp, "entrypoint.ts"))
        self.bump("entrypoint_artifacts_on_disk", len(on_disk))
        claimed = {p for (k, _t, _n), p in truth.items() if k == "entrypoint"}
        if None in claimed or claimed != on_disk:
            R["harness"].append(f"project {seed}: iso.ts entrypoints and entrypoint.ts files on disk differ")
            return []
        self.bump("artifact_directory_" + P.artifact_relation)
        jobs = [probe_job(s, app, P.config) for s in P.sites]
        for i, fl in enumerate(P.files):
            jobs.append({"id": f"m{i}", "kind": "transform", "root_dir": app, "file": fl["rel"], "source": fl["source"],
                         "config": P.config, "syntax": fl["syntax"], "mark": fl["mark"]})
        self.live = True
        return jobs

    # ---- stage 2
    def stage2(self, res):
        if not self.live:
            return []
        env, R, seed, P, app, truth, art = self.env, self.R, self.seed, self.P, self.app, self.truth, self.art
        bump = self.bump
        probes = self.probes = {s.sid: r for s, r in zip(P.sites, res[:len(P.sites)])}
        trans = self.trans = res[len(P.sites):]

        # monitor A
        for s in P.sites:
            h = s.header
            key = (h.kind, h.type, h.name)
            if key not in truth:
                R["harness"].append(f"project {seed}: compiler wrote no overload for {key}")
                continue
            R["sites"] += 1
            bump("sites_" + h.kind)
            bump("module_form_" + P.module_form)
            bump("file_depth_%d" % s.file["depth"])
            bump("context_" + s.ctx.split("=")[0])
            for (g, ws) in h.noncanonical():
                bump("noncanonical_gap_" + g)
                for cls in (value_class(ws).split("+")):
                    bump("gap_contains_" + cls)
            for (_g, _w, _t, o) in h.elems:
                if o:
                    bump("header_has_" + o)
            if any(h.name.startswith(k) for k in KEYWORDS):
                bump("name_starts_with_keyword")
            tp = truth.get(("entrypoint", h.type, h.name))
            rel_dir = os.path.relpath(art, os.path.dirname(os.path.join(app, s.file["rel"])))
            verdicts = judge_probe(h.kind, h.type, h.name, P.module_form, s.file["rel"], app, tp, probes[s.sid])
            if h.is_nontrivial():
                relation = "below" if not rel_dir.startswith("..") else "up%d" % rel_dir.count("..")
                R["shapes"].add(hashlib.md5((h.shape() + "|" + relation + "|" + P.module_form).encode()).digest()[:8])
            if h.kind == "entrypoint":
                bump("entrypoint_artifact_" + ("below_file_dir" if not rel_dir.startswith("..") else "above_or_beside_file_dir"))
            if probes[s.sid].get("class") == "entrypoint":
                bump("specifiers_resolved_to_artifact" if not verdicts else "specifiers_not_ok")
            elif probes[s.sid].get("class") == "field" and not verdicts:
                bump("field_or_pointer_calls_replaced_by_argument")
            for (rule, detail) in verdicts:
                if rule == "HARNESS":
                    R["harness"].append(f"project {seed}: probe of {s.literal!r}: {detail}")
                    continue
                R["fails"].append({
                    "rule": rule, "detail": detail, "project_seed": seed, "kind": h.kind, "type": h.type,
                    "name": h.name, "elems": h.elems, "trail": h.trail, "literal": s.literal,
                    "file": s.file["rel"], "syntax": s.syntax, "mark": s.file["mark"], "with_fn": s.fn is not None,
                    "config": P.config, "module_form": P.module_form, "artifact_rel_to_file_dir": rel_dir,
                    "plugin": {k: v for k, v in probes[s.sid].items()
                               if k in ("class", "how", "spec", "ident", "diagnostics", "panic")},
                })
        if P.sites:
            s = P.sites[0]
            R["sample"] = {"project_seed": seed, "config": P.config, "file": s.file["rel"], "literal": s.literal,
                           "compiler": f"{s.header.kind} {s.header.type}.{s.header.name}",
                           "plugin": {k: v for k, v in probes[s.sid].items() if k in ("class", "how", "spec")}}

        # monitor C, and the hand-substituted modules for monitor B
        jobs2, self.idx2 = [], []
        for i, fl in enumerate(P.files):
            t = trans[i]
            sites = [s for (_l, parts) in fl["items"] for s in all_sites(parts)]
            if "parse_error" in t:
                R["harness"].append(f"project {seed}: generated module does not parse: {t['parse_error']}")
                continue
            if "panic" in t:
                if not any("panic" in probes[s.sid] for s in sites):
                    R["module_fails"].append({"rule": "plugin-panics", "detail": t["panic"][:160], "project_seed": seed,
                                              "file": fl["rel"], "source": fl["source"], "config": P.config,
                                              "labels": [l for (l, _p) in fl["items"]]})
                bump("modules_skipped_because_of_panic")
                continue
            if any(probes[s.sid].get("class") in (None, "other") for s in sites):
                bump("modules_skipped_undecodable_probe")
                continue
            # the hand substitution is text: it needs identifiers that are identifiers and specifiers that print
            # as themselves (already reported by monitor A when they are not)
            if any(not PLAIN_IDENT.match(probes[s.sid].get("ident", "_"))
                   or not PLAIN_SPEC.match(probes[s.sid].get("spec", "x")) for s in sites):
                bump("modules_skipped_unprintable_substitution")
                continue
            created = [(ci["local"].split(":", 1)[1], ci["src"]) for ci in t["created_imports"]
                       if ci["n_specifiers"] == 1 and ci["local"].startswith("default:")]
            if len(created) != len(t["created_imports"]):
                R["module_fails"].append({"rule": "other-code-changed", "detail": "pass created a non-default import",
                                          "project_seed": seed, "file": fl["rel"], "source": fl["source"],
                                          "config": P.config, "labels": ["created-import-shape"]})
                continue
            kept_inner = set()
            for s in sites:     # calls nested in a kept call are never visited by the pass
                if probes[s.sid].get("class") == "kept" and s.fn:
                    kept_inner.update(x.sid for x in all_sites(s.fn))
            want = {(probes[s.sid]["ident"], probes[s.sid]["spec"]) for s in sites
                    if probes[s.sid].get("class") == "entrypoint" and probes[s.sid].get("how") == "import"
                    and s.sid not in kept_inner}
            bump("hoisted_imports_checked", len(created))
            if set(created) != want:
                R["module_fails"].append({"rule": "imports-differ-from-calls", "project_seed": seed, "file": fl["rel"],
                                          "detail": f"hoisted {sorted(set(created) ^ want)[:2]}", "source": fl["source"],
                                          "config": P.config, "labels": ["hoisted-imports"]})
            locals_ = [c[0] for c in created]
            if len(want) < sum(1 for s in sites if probes[s.sid].get("how") == "import" and s.sid not in kept_inner):
                bump("modules_using_one_entrypoint_several_times")
            dup = sorted({x for x in locals_ if locals_.count(x) > 1})
            if dup:
                R["module_fails"].append({"rule": "duplicate-import-binding", "project_seed": seed, "file": fl["rel"],
                                          "detail": f"`import {dup[0]}` hoisted {locals_.count(dup[0])} times",
                                          "source": fl["source"], "config": P.config,
                                          "labels": ["same-entrypoint-twice-in-module"]})
            decisions = {s.sid: probes[s.sid] for s in sites}
            fl["decisions"], fl["created"] = decisions, created
            jobs2.append({"id": f"e{i}", "kind": "print", "source": module_expected(fl["items"], decisions, created),
                          "syntax": fl["syntax"]})
            self.idx2.append(i)
        return jobs2

    # ---- stage 3
    def stage3(self, res2):
        if not self.live:
            return
        R, P, seed = self.R, self.P, self.seed
        for i, e in zip(self.idx2, res2):
            fl, t = P.files[i], self.trans[i]
            if "parse_error" in e or "panic" in e:
                R["harness"].append(f"project {seed}: hand-substituted module does not parse: "
                                    f"{e.get('parse_error') or e.get('panic')}")
                continue
            self.bump("modules_compared")
            self.bump("statements_compared", len(fl["items"]))
            if e["output"] != t["output"]:
                R["module_fails"].append({"rule": "other-code-changed", "project_seed": seed, "file": fl["rel"],
                                          "detail": first_diff(e["output"], t["output"]),
                                          "items": fl["items"], "decisions": fl["decisions"], "created": fl["created"],
                                          "syntax": fl["syntax"], "mark": fl["mark"], "config": P.config,
                                          "app": self.app, "source": fl["source"],
                                          "labels": [l for (l, _p) in fl["items"]], "needs_shrink": True})
            else:
                self.bump("modules_equal_to_hand_substitution")


def run_group(env, indices):
    """-> list of per-project result dicts"""
    runs = [ProjectRun(env, i) for i in indices]
    try:
        batches = [r.stage1() for r in runs]
        res = run_tool(env, [j for b in batches for j in b])
        pos, batches2 = 0, []
        for r, b in zip(runs, batches):
            batches2.append(r.stage2(res[pos:pos + len(b)]))
            pos += len(b)
        res2 = run_tool(env, [j for b in batches2 for j in b])
        pos = 0
        for r, b in zip(runs, batches2):
            r.stage3(res2[pos:pos + len(b)])
            pos += len(b)
        return [r.R for r in runs]
    finally:
        for r in runs:
            r.cleanup()


def first_diff(a, b):
    la, lb = a.splitlines(), b.splitlines()
    for i in range(max(len(la), len(lb))):
        x = la[i] if i < len(la) else "<end>"
        y = lb[i] if i < len(lb) else "<end>"
        if x != y:
            return f"line {i + 1}: expected `{x[:100]}` got `{y[:100]}`"
    return "outputs differ"


# ----------------------------------------------------------------------------
# shrinking (vectorised: one tool batch per round for all failures)
# ----------------------------------------------------------------------------
def header_from_fail(f):
    return Header(f["kind"], f["type"], f["name"], [tuple(e) for e in f["elems"]], f["trail"])


SIMPLE_BODY = {"Query": "{\n    n\n  }", "Mutation": "{\n    bump\n  }", "User": "{\n    id\n  }",
               "fieldThing": "{\n    id\n  }", "pointer_Box2": "{\n    id\n  }"}


def shrink_candidates(h):
    """one-step simplifications, most aggressive first"""
    out = []
    # drop optional groups (vars go together with a body that does not use them)
    for i, (g, ws, tok, opt) in enumerate(h.elems):
        if opt in ("directive", "description"):
            c = h.clone()
            del c.elems[i]
            out.append(c)
        elif opt == "vars":
            c = h.clone()
            del c.elems[i]
            c.elems = [(g2, w2, (t2.replace("echo(s: $v)", "n") if g2 == "before-brace" else t2), o2)
                       for (g2, w2, t2, o2) in c.elems]
            # `name to` needs a separator once the parentheses are gone
            c.elems = [(g2, (w2 or " ") if g2 == "before-to" else w2, t2, o2) for (g2, w2, t2, o2) in c.elems]
            out.append(c)
    # canonical body
    for i, (g, ws, tok, opt) in enumerate(h.elems):
        if g == "before-brace" and "$v" not in tok and "__link" not in tok and tok != SIMPLE_BODY[h.type]:
            c = h.clone()
            c.elems[i] = (g, ws, SIMPLE_BODY[h.type], opt)
            out.append(c)
    # canonical gaps
    for i, (g, ws, tok, opt) in enumerate(h.elems):
        if ws != CANON[g]:
            c = h.clone()
            c.elems[i] = (g, CANON[g], tok, opt)
            out.append(c)
    if h.trail != "":
        c = h.clone()
        c.trail = ""
        out.append(c)
    # smaller values for the gaps that have to stay non-canonical
    def size(v):
        return (len(v), v != " ")
    for i, (g, ws, tok, opt) in enumerate(h.elems):
        if ws != CANON[g]:
            smaller = []
            if g not in MUST_SEPARATE and g != "before-to":
                smaller.append("")
            smaller.append(" ")
            smaller += sorted(set(ws))
            for v in smaller:
                if v != CANON[g] and size(v) < size(ws):
                    c = h.clone()
                    c.elems[i] = (g, v, tok, opt)
                    out.append(c)
    # a neutral name
    if h.name != "Abc":
        c = h.clone()
        c.name = "Abc"
        c.elems = [(g, ws, ("Abc" if g == "after-dot" else tok), opt) for (g, ws, tok, opt) in c.elems]
        out.append(c)
    return out


def expected_truth_path(app, cfg, type_, name):
    base = cfg.get("artifact_directory") or cfg["project_root"]
    return os.path.normpath(os.path.join(app, base, "__isograph", type_, name, "entrypoint.ts"))


def shrink_fails(env, fails, max_rounds=40):
    """fails: raw failures of monitor A. Returns list of (fail, shrunk Header)."""
    app = os.path.join(env.ctx.work, "shrink-root", "app")   # the pass is lexical: root need not exist
    state = [header_from_fail(f) for f in fails]
    active = list(range(len(fails)))
    for _round in range(max_rounds):
        if not active:
            break
        jobs, owner = [], []
        cands = {}
        for i in active:
            cs = shrink_candidates(state[i])
            cands[i] = cs
            f = fails[i]
            for k, c in enumerate(cs):
                jobs.append({"id": len(jobs), "kind": "probe", "root_dir": app, "file": f["file"], "config": f["config"],
                             "literal": c.text(), "with_fn": f["with_fn"], "syntax": f["syntax"], "mark": f["mark"]})
                owner.append((i, k))
        res = run_tool(env, jobs)
        chosen = {}
        for (i, k), p in zip(owner, res):
            if i in chosen:
                continue
            f, c = fails[i], cands[i][k]
            tp = expected_truth_path(app, f["config"], c.type, c.name)
            rules = {r for (r, _d) in judge_probe(c.kind, c.type, c.name, f["module_form"], f["file"], app, tp, p)}
            if f["rule"] in rules:
                chosen[i] = c
        active = [i for i in active if i in chosen]
        for i in active:
            state[i] = chosen[i]
    return list(zip(fails, state))


def path_feature(f):
    rel = f["artifact_rel_to_file_dir"]
    if not rel.startswith(".."):
        return "artifact-directory-below-source-file-directory"
    return "artifact-directory-not-below-source-file-directory"


def signature_for(f, shrunk):
    feats = sorted({feature_label(g, ws) for (g, ws) in shrunk.noncanonical()})
    for (g, w, tok, opt) in shrunk.elems:
        if opt == "description":
            feats.append("description-mentions-a-declaration" if re.search(r"(entrypoint|field|pointer)\s*\w+\.\w", tok)
                         else "description")
        elif opt and w == CANON[g]:     # the group itself matters, not the gap in front of it
            feats.append(opt)
    if shrunk.name != "Abc":
        feats.append("name=" + shrunk.name)
    if not feats:
        feats = [path_feature(f)]
    return f"{PID}/{f['rule']}/" + "+".join(feats)


def verify_witnesses_with_compiler(env, groups):
    """groups: {signature: (fail, shrunk header)}. Compile each shrunk header for real; -> {signature: bool}"""
    out = {}
    for n, (sig, (f, h)) in enumerate(sorted(groups.items())):
        pdir = os.path.join(env.ctx.work, f"verify{n}")
        app = os.path.join(pdir, "app")
        os.makedirs(os.path.join(app, "src"), exist_ok=True)
        with open(os.path.join(app, "schema.graphql"), "w") as fh:
            fh.write(SCHEMA)
        with open(os.path.join(app, "isograph.config.json"), "w") as fh:
            json.dump({"project_root": "./src", "schema": "./schema.graphql"}, fh)
        if h.kind == "entrypoint":
            src = (f"export const A = iso(`field {h.type}.{h.name} {SIMPLE_BODY[h.type]}`)((x) => x);\n"
                   f"const e = iso(`{h.text()}`);\n")
        else:
            src = f"export const A = iso(`{h.text()}`)((x) => x);\n"
        with open(os.path.join(app, "src", "w.ts"), "w", encoding="utf-8", newline="") as fh:
            fh.write(src)
        ok, _text = compile_project(env, app)
        truth, _art = read_compiler_truth(app, {"project_root": "./src"}) if ok else (None, None)
        out[sig] = bool(ok and truth and (h.kind, h.type, h.name) in truth)
        shutil.rmtree(pdir, ignore_errors=True)
    return out


def shrink_module_fail(env, m):
    """greedy removal of top-level items while the printed module still differs; -> labels that remain"""
    items = list(m["items"])
    decisions, created = m["decisions"], m["created"]

    def differs(sub):
        src = module_source(sub)
        used = {s.sid for (_l, parts) in sub for s in all_sites(parts)}
        idents = {decisions[s]["ident"] for s in used if decisions[s].get("how") == "import"}
        cr = [c for c in created if c[0] in idents]
        jobs = [{"id": "t", "kind": "transform", "root_dir": m["app"], "file": m["file"], "source": src,
                 "config": m["config"], "syntax": m["syntax"], "mark": m["mark"]},
                {"id": "e", "kind": "print", "source": module_expected(sub, decisions, cr), "syntax": m["syntax"]}]
        t, e = run_tool(env, jobs)
        if "output" not in t or "output" not in e:
            return False
        return t["output"] != e["output"]

    changed = True
    while changed and len(items) > 1:
        changed = False
        for i in range(len(items)):
            sub = items[:i] + items[i + 1:]
            if differs(sub):
                items = sub
                changed = True
                break
    return sorted({l for (l, _p) in items}), module_source(items)


# ----------------------------------------------------------------------------
# entry points
# ----------------------------------------------------------------------------
def run(ctx):
    env = Env(ctx)
    nproj = ctx.pick(400, 20000)
    group = 10
    groups = [list(range(i, min(i + group, nproj))) for i in range(0, nproj, group)]
    results = [r for rs in runner.run_shards(groups, lambda g: run_group(env, g)) for r in rs]

    stats, shapes, fails, module_fails, harness = {}, set(), [], [], []
    tot = {"projects": 0, "compiled": 0, "rejected": 0, "sites": 0}
    samples, reject_samples = [], []
    for r in results:
        for k in tot:
            tot[k] += r[k]
        for k, v in r["stats"].items():
            stats[k] = stats.get(k, 0) + v
        shapes |= r["shapes"]
        fails += r["fails"]
        module_fails += r["module_fails"]
        harness += r["harness"]
        if r["sample"] and len(samples) < 3:
            samples.append(r["sample"])
        if r["reject_sample"] and len(reject_samples) < 3:
            reject_samples.append(r["reject_sample"])

    if harness:
        raise Inconclusive(f"harness inconsistency ({len(harness)}): {harness[0]}")
    if tot["rejected"] > max(2, tot["projects"] // 50):
        raise Inconclusive(f"the compiler rejected {tot['rejected']} of {tot['projects']} generated projects: "
                           f"{json.dumps(reject_samples[:1])[:600]}")

    violations = []
    # ---- monitor A failures: shrink, sign, confirm the shrunk witness with the compiler
    if fails:
        # one representative per (rule, fingerprint of non-canonical features) is shrunk; the others share it
        reps, member = {}, []
        for f in fails:
            h = header_from_fail(f)
            fp = (f["rule"], f["kind"], tuple(sorted((g, value_class(w)) for (g, w) in h.noncanonical())),
                  tuple(sorted(o for (_g, _w, _t, o) in h.elems if o)),
                  any(f["name"].startswith(k) for k in KEYWORDS), path_feature(f))
            member.append(fp)
            reps.setdefault(fp, f)
        keys = sorted(reps, key=repr)
        shrunk = shrink_fails(env, [reps[k] for k in keys])
        sig_of, groups = {}, {}
        for k, (f, h) in zip(keys, shrunk):
            sig = signature_for(f, h)
            sig_of[k] = (sig, h)
            groups.setdefault(sig, (f, h))
        confirmed = verify_witnesses_with_compiler(env, groups)
        for f, fp in zip(fails, member):
            sig, h = sig_of[fp]
            if not confirmed.get(sig, False):
                # the shrunk header is not something the compiler accepts: keep the original as the witness
                sig = f"{PID}/{f['rule']}/unshrunk:" + "+".join(sorted({feature_label(g, w) for (g, w) in header_from_fail(f).noncanonical()}))
            rep_f, rep_h = groups.get(sig, (f, header_from_fail(f)))
            violations.append({
                "rule": f["rule"], "signature": sig,
                "what": f"{f['kind']} literal accepted by the compiler: plugin {f['rule']} ({f['detail'][:140]})",
                "witness": {"minimal_literal": rep_h.text(), "minimal_file": rep_f["file"], "config": rep_f["config"],
                            "original_literal": f["literal"], "file": f["file"], "project_seed": f["project_seed"],
                            "plugin": f["plugin"], "artifact_rel_to_file_dir": f["artifact_rel_to_file_dir"],
                            "replay": "swc_tools transform <<< {kind:probe, root_dir:<abs>, file, config, literal}"},
            })
    # ---- module level
    for m in module_fails:
        labels, src = m["labels"], m["source"]
        if m.get("needs_shrink"):
            try:
                labels, src = shrink_module_fail(env, m)
            except Inconclusive:
                pass
        sig = f"{PID}/{m['rule']}/" + "+".join(sorted(set(labels)))
        violations.append({"rule": m["rule"], "signature": sig,
                           "what": f"{m['file']}: {m['detail'][:160]}",
                           "witness": {"project_seed": m["project_seed"], "file": m["file"], "config": m["config"],
                                       "source": src[:4000]}})
    # keep the evidence small: at most 25 witnesses per signature
    per = {}
    kept = []
    for v in violations:
        per[v["signature"]] = per.get(v["signature"], 0) + 1
        if per[v["signature"]] <= 25:
            kept.append(v)

    cov = {
        "evaluations": tot["sites"],
        "distinct_nontrivial": len(shapes),
        "rule": RULE,
        "samples": samples[:3],
        "projects_generated": tot["projects"],
        "projects_compiled_by_cli": tot["compiled"],
        "projects_rejected_by_cli": tot["rejected"],
        "observed": dict(sorted(stats.items())),
        "raw_failures_before_dedup": {"per_literal": len(fails), "per_module": len(module_fails)},
        "occurrences_per_signature": dict(sorted(per.items())),
    }
    return runner.finish(ctx, LEVEL, cov, kept, assumptions=[
        "file name and root_dir are absolute paths (the documented contract of the wasm entry point); POSIX paths only",
        "the compiler's view of a literal is read from what it wrote (iso.ts overloads, entrypoint.ts on disk)",
        "an import specifier may omit the .ts extension; it must start with ./ or ../ to be file-relative",
        "the printed-module comparison goes through swc_ecma_codegen on both sides, so it cannot see changes the "
        "printer itself hides (spans, syntax contexts)",
    ])


def replay(ctx, path):
    return run(ctx)
