"""C08 - the compiler never crashes on any project."""
import collections
import hashlib
import json
import os
import random
import re
import shutil
import subprocess
from concurrent.futures import ProcessPoolExecutor

import cli_common as cc
import e3
import hostile
import isogen
import isomut
import runner
from runner import subseed

LEVEL = "exploration"
RULE = ("every case is one batch compile by the real isograph_cli in its own process (exit status, signal, stderr, child "
        "CPU time). Workloads: (a) seeded well-typed projects from pylib/isogen.py (all profiles); (b) their single- and "
        "multi-fault validation mutants (pylib/isomut.py); (c) hostile shapes from pylib/hostile.py (self/mutually "
        "recursive client fields, recursive loadable fields and pointers, pointers to abstract/undefined/scalar targets, "
        "50-600-deep nesting, 30-400-long client field chains, 10^3-10^4 selections, huge integers, empty/binary/"
        "unterminated source files, schema without Query / with schema block / duplicates / dangling references / odd "
        "kinds, entrypoints on non-fetchable types, pointers, server fields, twice with different directives, directive, "
        "refinement, variable, argument, @exposeField, __link/__refetch, @loadable, @updatable oddities, config variants); "
        "(d) raw token/line/character mutations inside iso literals, schemas and schema extensions of the four "
        "checked-in projects, of generated projects and of the hostile base project. Oracle: no signal (a stack overflow "
        "is re-run under gdb and named after the functions that recurse), no panic (stderr 'panicked at' / exit 101), child CPU <= 60 s (wall-clock watchdog firing first = inconclusive), exit 0 or a "
        "diagnostic on stderr. Non-trivial: the compile succeeded or reported a diagnostic other than a literal/schema "
        "syntax error; distinct by outcome fingerprint (diagnostic message shapes, or success + artifact kinds).")

PANIC = re.compile(r"panicked at ([^:\n]+):(\d+):\d+:\n([^\n]*)")
CONFIG_PANICS = ("Unable to canonicalize", "Expected config to be", "Error parsing config", "Unable to read config")


def _workspace_crates():
    out = set()
    for d in ("crates", "relay-crates"):
        try:
            out.update(n.replace("-", "_") for n in os.listdir(os.path.join(runner.REPO, d)))
        except OSError:
            pass
    return out


def recursion_cycle(cli, root):
    """Which functions recurse when the compile of `root` overflows its stack: the compile is run once more under gdb
    (only for a case that already crashed; ~10-20 s), the backtrace at the abort is reduced to function names without
    hashes, and the first stretch that repeats three times in a row is the cycle.  Returns the sorted distinct names of
    the /repo functions (last path segment, closures folded into their function) in one period, or None (no gdb, no
    periodic backtrace).  The names do not depend on field names, depth or seed."""
    gdb = shutil.which("gdb")
    if not gdb:
        return None
    env = dict(runner.BASE_ENV)
    env.update({"NO_COLOR": "1", "RUST_BACKTRACE": "0"})
    try:
        p = subprocess.run([gdb, "-batch", "-nx", "-ex", "run", "-ex", "bt 400", "--args", cli, "--config", "isograph.config.json"],
                           cwd=root, env=env, stdout=subprocess.PIPE, stderr=subprocess.DEVNULL, timeout=300)
    except (OSError, subprocess.TimeoutExpired):
        return None
    frames = []
    for l in p.stdout.decode(errors="replace").split("\n"):
        m = re.match(r"#\d+\s+(?:0x[0-9a-f]+ in )?(.+?) \(", l)
        if m:
            frames.append(re.sub(r"::h[0-9a-f]{16}$", "", m.group(1)))
    for start in range(0, 80):
        for period in range(1, 80):
            a, b, c = (frames[start + i * period:start + (i + 1) * period] for i in range(3))
            if len(c) == period and a == b == c:
                crates = _workspace_crates()
                names = set()
                for f in a:
                    segs = [x for x in re.sub(r"<[^<>]*>", "", f).split("::") if x and x != "{{closure}}"]
                    if segs and segs[0] in crates:
                        names.add(segs[-1])
                return sorted(names) or None
    return None


def classify(r, label, witness, rerun=None):
    """-> violation dict or None.  Raises Inconclusive for a watchdog.  rerun = (cli, project dir) lets a stack overflow
    be named after the functions that recurse (the same recursion gives the same signature for every shape, any other
    abort in that shape stays a different signature) instead of after the workload that happened to reach it.

    Panic signatures name the cause, not the place where it happened to surface first:
    * `expect()` on an Err(Diagnostic) prints `<expect text>: Diagnostic(DiagnosticData { message: "..."`; the expect text
      is shared by unrelated causes (e.g. "Expected to get query root entity" for a pointer to an unfetchable type and
      for a hard-coded root type), so the signature is file + short expect text + the normalised diagnostic message;
    * an arithmetic overflow (only a panic because the check's build has overflow checks; a --release build wraps) is
      named after the overflowing expression read from the source line the panic points at, not after the file: the u8
      `indentation_level + 1` overflows first in query_text.rs or in normalization_ast_text.rs depending on the depth;
    * a panic raised by the config loader (crates/isograph_config/src/compilation_options.rs: it rejects every bad
      config by a deliberate panic, e.g. a multi-line generated_file_header) means the configuration is not well-formed:
      not judged, like the CONFIG_PANICS above."""
    norm = lambda t: re.sub(r"[0-9]+", "#", re.sub(r"`[^`]*`|\"[^\"]*\"|'[^']*'", "<q>", t))
    if r.timed_out:
        if r.cpu_s > cc.CPU_BOUND_S:
            return {"rule": "no-progress", "signature": f"C08/cpu-bound-exceeded/{label}", "what": f"{witness['case']} burned {r.cpu_s:.0f}s CPU", "witness": witness}
        raise runner.Inconclusive(f"wall-clock watchdog for {witness['case']}")
    if r.signal is not None:
        if "has overflowed its stack" in r.stderr and rerun:
            cycle = recursion_cycle(*rerun)
            if cycle:
                return {"rule": "stack-overflow", "signature": "C08/stack-overflow/" + "+".join(cycle),
                        "what": f"{witness['case']} overflowed its stack ({r.signal}) recursing through " + ", ".join(cycle),
                        "witness": dict(witness, stderr_tail=r.stderr[-500:])}
        return {"rule": "killed-by-signal", "signature": f"C08/signal/{r.signal}/{label}", "what": f"{witness['case']} died with {r.signal}",
                "witness": dict(witness, stderr_tail=r.stderr[-500:])}
    if r.panicked():
        m = PANIC.search(r.stderr)
        f = os.path.basename(m.group(1)) if m else "?"
        text = m.group(3) if m else ""
        if m and m.group(1).replace("\\", "/").endswith("isograph_config/src/compilation_options.rs"):
            return None
        inner = re.search(r"^(.*?): Diagnostic\(DiagnosticData \{ message: \"((?:[^\"\\]|\\.)*)\"", text)
        if inner:
            msg = norm(inner.group(1))[:40] + " :: " + norm(inner.group(2).replace('\\"', '"'))[:60]
        elif re.search(r"attempt to .* with overflow", text):
            expr = ""
            try:
                line = open(os.path.join(runner.REPO, m.group(1)), errors="replace").read().split("\n")[int(m.group(2)) - 1]
                col = int(re.search(r":(\d+):\n", m.group(0)).group(1))
                e = re.match(r"\(?\s*([\w.]+\s*(?:[-+*]|<<)\s*[\w.]+)", line[col - 1:])
                expr = e.group(1) if e else line.strip()
            except (OSError, IndexError, AttributeError, ValueError):
                pass
            f, msg = "arithmetic-overflow", norm(expr or text)[:70]
        else:
            msg = norm(text)[:70]
        return {"rule": "panic", "signature": f"C08/panic/{f}/{msg}", "what": f"{witness['case']} panicked at {os.path.basename(m.group(1)) if m else '?'}:{m.group(2) if m else '?'}: {(text if m else r.stderr[-200:])[:160]}",
                "witness": dict(witness, stderr_tail=r.stderr[-700:])}
    if r.cpu_s > cc.CPU_BOUND_S:
        return {"rule": "no-progress", "signature": f"C08/cpu-bound-exceeded/{label}", "what": f"{witness['case']} burned {r.cpu_s:.0f}s CPU", "witness": witness}
    if r.rc != 0 and not r.has_diagnostic():
        return {"rule": "failure-without-diagnostic", "signature": f"C08/exit-{r.rc}-without-diagnostic", "what": f"{witness['case']} exited {r.rc} without a diagnostic",
                "witness": dict(witness, stderr_tail=r.stderr[-400:])}
    return None


def fingerprint(r, root):
    if r.ok():
        kinds = set()
        adir = cc.artifact_dir_of(root)
        for _d, _dirs, fs in os.walk(adir):
            kinds.update(re.sub(r"[0-9]+", "N", f) for f in fs)
        return "ok:" + ",".join(sorted(kinds)), True
    t = cc.ANSI.sub("", r.stderr)
    msgs = set()
    lines = t.split("\n")
    for i, l in enumerate(lines):
        if re.match(r"^\S[^\n:]*:\d+:\d+$", l) and i > 0:
            msgs.add(e3.shape_of_error(lines[i - 1]))
    if not msgs:
        m = re.search(r"Error when compiling\.\s*\n\s*\n(.*)", t)
        if m:
            msgs.add(e3.shape_of_error(m.group(1)))
    syntaxy = all(("expected" in m.lower() or "syntax" in m.lower() or "unexpected" in m.lower()) for m in msgs) if msgs else True
    return "err:" + "|".join(sorted(msgs))[:300], not syntaxy


def _is_config_panic(r):
    return r.panicked() and any(s in r.stderr for s in CONFIG_PANICS)


def _case(spec):
    out = {"violations": [], "stats": collections.Counter(), "nontrivial": False, "distinct": None, "sample": None, "error": None}
    root = spec["root"]
    try:
        kind = spec["kind"]
        rng = random.Random(subseed(spec["seed"], "c08", kind))
        shutil.rmtree(root, ignore_errors=True)
        desc = {"workload": kind, "seed": spec["seed"]}
        if kind == "generated":
            p = isogen.generate(spec["seed"], spec["profile"], **(spec.get("opts") or {}))
            v = spec["variant"]
            if v == "single-fault":
                ms = isomut.single_fault_mutants(p, rng)
                p = rng.choice(ms) if ms else p
            elif v == "multi-fault":
                p = isomut.multi_fault(p, rng, k=rng.randint(2, 5)) or p
            p.write(root)
            desc.update(profile=spec["profile"], variant=v, mutation=getattr(p, "mutation", None))
            label = "generated"
        elif kind == "shape":
            f = [s for s in hostile.SHAPES if s.__name__ == spec["shape"]][0]
            hostile.write_files(f(rng), root)
            desc.update(shape=spec["shape"])
            label = spec["shape"]
        else:  # raw mutation
            base = spec["base"]
            if base.startswith("checked-in:"):
                proj = [x for x in cc.checked_in_projects() if x["name"] == base.split(":", 1)[1]][0]
                cc.copy_checked_in(proj, root)
            elif base == "hostile-base":
                hostile.write_files(hostile.base(True), root)
            else:
                isogen.generate(spec["seed"], base.split(":", 1)[1]).write(root)
            desc.update(base=base, edits=hostile.raw_mutate(root, rng))
            label = "raw:" + base.split(":")[0]
        cid = f"{kind}:{spec.get('profile') or spec.get('shape') or spec.get('base')}:{spec['seed']}"
        if spec.get("asan"):
            r = cc.run_cli_timed(spec["cli"], root, extra_env={"ASAN_OPTIONS": "detect_leaks=0:halt_on_error=1:abort_on_error=0:exitcode=97", "RUST_MIN_STACK": str(512 << 20)}, stack_mb=1024)
            out["stats"]["compiles_under_asan"] += 1
            m = re.search(r"ERROR: AddressSanitizer: ([A-Za-z-]+)", r.stderr)
            if m:
                fr = re.findall(r"#\d+ 0x[0-9a-f]+ in (\S+) (\S+)", r.stderr)
                first = next((f for f, at in fr if runner.REPO_PREFIX in at), fr[0][0] if fr else "?")
                out["violations"].append({"rule": "asan", "signature": f"C08/asan/{m.group(1)}@{first[:80]}",
                                          "what": f"AddressSanitizer: {m.group(1)} in {first} while compiling {kind}:{spec.get('shape') or spec.get('profile') or spec.get('base')}:{spec['seed']}",
                                          "witness": {"spec": {k: v for k, v in spec.items() if k not in ('cli', 'root')}, "stderr_head": r.stderr[:3000]}})
        else:
            r = cc.run_cli_timed(spec["cli"], root)
        out["stats"]["compiles"] += 1
        out["stats"]["w:" + label.split(":")[0]] += 1
        out["stats"]["ok" if r.ok() else "rejected"] += 1
        wit = {"case": cid, "recipe": dict(desc, how="pylib/props/c08.py:_case with this spec", spec={k: v for k, v in spec.items() if k not in ("cli", "root")})}
        if _is_config_panic(r):
            out["stats"]["config_rejected_by_panic(not judged: config not well-formed)"] += 1
            return out
        v = classify(r, label, wit, rerun=None if spec.get("asan") else (spec["cli"], root))
        if v:
            # keep the inputs of crashing cases small enough to read
            files = {}
            for d, dirs, fs in os.walk(root):
                dirs[:] = [x for x in dirs if x not in ("__isograph", "node_modules")]
                for f in fs:
                    p = os.path.join(d, f)
                    if os.path.getsize(p) < 6000:
                        files[os.path.relpath(p, root)] = open(p, errors="replace").read()
            v["witness"]["files"] = files if len(json.dumps(files)) < 40000 else "omitted (large)"
            out["violations"].append(v)
        fp, nontrivial = fingerprint(r, root)
        out["nontrivial"] = nontrivial
        out["distinct"] = hashlib.sha1(fp.encode()).hexdigest()[:12]
        out["cpu"] = r.cpu_s
        if nontrivial and not r.ok():
            out["sample"] = {"case": cid, "recipe": {k: v for k, v in desc.items() if k != "seed"}, "outcome": fp[:200]}
        return out
    except runner.Inconclusive as e:
        out["error"] = str(e)
        return out
    finally:
        out["stats"] = dict(out["stats"])
        shutil.rmtree(root, ignore_errors=True)


def run(ctx):
    cli = runner.build_cli()
    n_gen, n_shape, n_raw = ctx.pick((12, 6, 60), (1500, 500, 12000))
    specs = []
    k = 0

    def add(**kw):
        nonlocal k
        kw.update(cli=cli, root=os.path.join(ctx.work, f"c08-{k}"))
        specs.append(kw)
        k += 1
    for prof in ("core", "plain", "text", "names", "keys"):
        for variant in ("valid", "single-fault", "multi-fault"):
            for i in range(n_gen):
                add(kind="generated", profile=prof, variant=variant, seed=subseed(ctx.seed, "c08g", prof, variant, i) % (1 << 48))
    for s in hostile.SHAPES:
        m = n_shape if s.__name__ not in hostile.HEAVY else max(2, n_shape // 4)
        for i in range(m):
            add(kind="shape", shape=s.__name__, seed=subseed(ctx.seed, "c08s", s.__name__, i) % (1 << 48))
    bases = ["checked-in:" + p["name"] for p in cc.checked_in_projects()] + ["hostile-base", "generated:core", "generated:keys"]
    for i in range(n_raw):
        add(kind="raw", base=bases[i % len(bases)], seed=subseed(ctx.seed, "c08r", i) % (1 << 48))
    asan_note = None
    if not ctx.quick() or os.environ.get("VERIF_C08_ASAN"):
        # thorough: the same workloads (a sample) under an AddressSanitizer build of the CLI
        try:
            acli = runner.build_cli_asan()
            sample = [dict(sp, cli=acli, asan=True, root=sp["root"] + "-asan") for i, sp in enumerate(specs)
                      if sp.get("shape") not in hostile.HEAVY and i % ctx.pick(40, 12) == 0]
            specs += sample
        except runner.Inconclusive as e:
            asan_note = f"ASan leg inconclusive: {e}"
    with ProcessPoolExecutor(max_workers=runner.NCPU) as ex:
        results = list(ex.map(_case, specs, chunksize=1))
    errs = [r["error"] for r in results if r.get("error")]
    if len(errs) > max(2, len(results) // 50):
        raise runner.Inconclusive(f"{len(errs)} cases inconclusive, e.g. {errs[0]}")
    v, stats, distinct, samples = [], collections.Counter(), set(), []
    maxcpu = 0.0
    for r in results:
        v += r["violations"]
        stats.update(r["stats"])
        maxcpu = max(maxcpu, r.get("cpu") or 0.0)
        if r["nontrivial"]:
            distinct.add(r["distinct"])
        if r["sample"] and len(samples) < 4 and all(s["recipe"].get("workload") != r["sample"]["recipe"].get("workload") for s in samples):
            samples.append(r["sample"])
    cov = {"evaluations": stats["compiles"], "distinct_nontrivial": len(distinct), "rule": RULE, "samples": samples or [{"note": "none"}],
           "observed": dict(stats), "max_child_cpu_s": round(maxcpu, 2), "shapes": len(hostile.SHAPES),
           "asan_leg": asan_note or f"{stats.get('compiles_under_asan', 0)} compiles under an AddressSanitizer build of the CLI (thorough only)"}
    return runner.finish(ctx, LEVEL, cov, v, assumptions=[
        "a configuration whose schema / paths do not exist is not 'well-formed'; the CLI's deliberate panics while loading such a config are counted, not judged",
        "watch-mode recompiles are monitored by the C20 engine (rule c08-watch-panic)",
        "termination is decided as bounded progress: <= 60 s child CPU for projects of this size",
    ])


def replay(ctx, path):
    d = json.load(open(path))
    spec = d["first"]["witness"]["recipe"]["spec"]
    spec.update(cli=runner.build_cli(), root=os.path.join(ctx.work, "replay"))
    r = _case(spec)
    for v in r["violations"]:
        print("VIOLATION property=C08 replay=" + path)
        print(" ", v["signature"], v["what"])
    return 1 if r["violations"] else 0
