"""C04 - distinct memoized functions never share cached results (pico)."""
import os
import pico_common as pc
import runner

LEVEL = "exploration"
RULE = ("(i) histories mixing a::same / b::same (token-identical signatures, different bodies, different modules) with "
        "the rest of the program: each result compared with its own twin; (ii) hook pico::verif records, for every memo "
        "key, the function identities (module path :: name) that registered it, in pico_mon and in the hook-enabled "
        "isograph_cli compiling the checked-in demos: a key with two identities is a violation. Non-trivial: history "
        "calls both same() functions.")


def run(ctx):
    n = ctx.pick(300_000, 12_000_000)
    rep = pc.run_native(ctx, "c04", n, samples=2)
    if rep.get("crashes"):
        raise runner.Inconclusive("pico_mon died; see C03")
    v = pc.violations_for("C04", rep)
    for c in rep.get("memo_identity_conflicts", []):
        ids = c.split("\t")[1:]
        v.append({"rule": "key-shared", "signature": "C04/key-shared/" + "+".join(sorted(ids)),
                  "what": f"memo key shared by {ids}", "witness": c})
    # (ii) the repository's own #[memo] functions, as executed by the real CLI
    cli_ids, cli_conflicts, projects = set(), [], 0
    try:
        import cli_common
        cli = runner.build_cli()
        for proj in cli_common.checked_in_projects():
            dump = os.path.join(ctx.work, "ids.tsv")
            if os.path.exists(dump):
                os.remove(dump)
            cli_common.compile_checked_in(cli, proj, ctx.work, extra_env={"PICO_VERIF_DUMP": dump})
            projects += 1
            if os.path.exists(dump):
                for line in open(dump):
                    parts = line.rstrip("\n").split("\t")
                    cli_ids.update(parts[1:])
                    if len(parts) > 2:
                        cli_conflicts.append(parts)
    except ImportError:
        pass
    for parts in cli_conflicts:
        v.append({"rule": "key-shared", "signature": "C04/key-shared/" + "+".join(sorted(parts[1:])),
                  "what": f"memo key {parts[0]} shared by {parts[1:]} in isograph_cli", "witness": parts})
    cov = {
        "evaluations": rep["histories"],
        "distinct_nontrivial": rep["nontrivial_c04"],
        "rule": RULE,
        "samples": rep["samples"][:2],
        "observed": {"same_fn_calls": rep["stats"].get("c04_pairs", 0),
                     "memo_identities_in_harness": rep.get("memo_identities", 0),
                     "memo_identities_in_isograph_cli": len(cli_ids),
                     "cli_projects_compiled": projects,
                     "cli_identity_sample": sorted(cli_ids)[:12]},
    }
    return runner.finish(ctx, LEVEL, cov, v, assumptions=[
        "'any program' is decided for the harness program and for the #[memo] functions the repository's own CLI executed",
    ])


def replay(ctx, path):
    return run(ctx)
