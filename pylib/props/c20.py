"""C20 — watch mode produces what a fresh batch compile would; the watcher keeps running.

Deterministic leg: `watch_tools sim` replays generated edit scripts against the real
incremental path (event categorisation hook H5 -> update_sources -> compile -> gc) and
compares with a fresh CompilerState after every step (see harness/watch_tools/src/sim.rs and
pylib/watch_common.py).  Real leg: real `isograph_cli --watch` sessions with real syscalls.

The watch-mode clauses of C08 (no panic in an incremental recompile) and C17 (a failed
recompile leaves the artifact directory untouched) are monitored by the same runs and reported
under the rules `c08-watch-panic` / `c17-watch-failed-compile-touched-artifacts`."""
import json
import os
import threading

import runner
import watch_common as wc
from runner import Inconclusive

ASSUMPTIONS = [
    "sim leg: the debounced events fed to the incremental state are synthesised from shapes recorded once with "
    "notify 7.0.0 / notify-debouncer-full 0.4.0 on Linux inotify (data/event_shapes.json); operations batched "
    "into one debounce window touch unrelated paths, so concatenating their events is what the debouncer "
    "delivers; the real leg checks the same edit kinds against the real watcher",
    "the configuration file is never edited; schema and extensions live outside project_root (as in every "
    "checked-in project); edits made to the artifact directory itself are only used to check that they are "
    "ignored as sources (files put there are excluded from directory comparisons)",
    "diagnostics are compared as sets of printed texts; the location of a 'Multiple definitions' report and of "
    "diagnostics whose messages agree is ignored because it depends on hash-map / interning order between two "
    "fresh compiles as well (counted in location_only_differences)",
    "a fresh compile that cannot initialise (schema or extension missing, unreadable source) is matched by any "
    "error reported by the watcher",
    "real leg: edits made before the watcher has established its inotify watches (start-up window) and edits "
    "behind the open known findings are not generated there; verdicts never depend on timing (a probe file "
    "recompile orders the comparison after all earlier events)",
]


def run(ctx):
    bindir = runner.cargo_build(["watch_tools"])
    tool = os.path.join(bindir, "watch_tools")
    n_cases = ctx.pick(320, 10000)
    n_real = ctx.pick(8, 120)
    real_steps = ctx.pick(6, 14)
    nshards = runner.NCPU
    work = ctx.work

    # ---- real leg runs concurrently with the sim shards (it mostly sleeps) ---------------
    real_results = []
    real_error = []

    shapes = {}

    def real_leg():
        try:
            if not ctx.quick():
                # the assumption behind the synthesised events, re-measured with the real debouncer
                n, bad = wc.recheck_event_shapes(tool, os.path.join(work, "shapes"))
                shapes.update(checked=n, mismatching=bad)
            cli = runner.build_cli()
            jobs = list(range(n_real))

            def job(i):
                return wc.real_session(cli, tool, runner.subseed(ctx.seed, "real", i), work, i, real_steps)

            real_results.extend(runner.run_shards(jobs, job, workers=8 if ctx.quick() else 12))
        except Exception as e:  # noqa: BLE001
            real_error.append(e)

    th = threading.Thread(target=real_leg)
    th.start()

    # ---- deterministic leg ----------------------------------------------------------------
    per = (n_cases + nshards - 1) // nshards

    def shard(si):
        root = os.path.join(work, f"sim{si}")
        cases = []
        for j in range(per):
            idx = si * per + j
            if idx >= n_cases:
                break
            cases.append(wc.make_case(runner.subseed(ctx.seed, "case", idx), root, idx))
        return wc.run_sim_shard(tool, root, cases, si)

    try:
        outs = runner.run_shards(list(range(nshards)), shard)
    finally:
        th.join()
    if real_error:
        raise real_error[0]

    if shapes.get("mismatching"):
        raise Inconclusive("the debouncer no longer delivers the recorded event shapes for "
                           f"{shapes['mismatching']}: re-record data/event_shapes.json and adapt the synthesiser")

    counters = {}
    violations = []
    fps = set()
    samples = []
    crashed = []
    cases_run = 0
    for o in outs:
        for s in o["summaries"]:
            fps.update(s.pop("nontrivial_fingerprints", []))
            samples += s.pop("samples", [])
            s.pop("skipped_reasons", None)
            wc.merge_counts(counters, s)
        crashed += o["crashed"]
        for r in o["results"]:
            cases_run += 1
            v = r.get("violation")
            if v:
                violations.append({
                    "rule": v["rule"],
                    "signature": f"C20/{v['rule']}/{v['cause']}",
                    "what": v["what"].replace("\n", " ")[:300],
                    "witness": {"case": r["case"], "step": v["step"], "shrunk": v["shrunk"], "detail": v["detail"],
                                "original_steps": v["original_steps"],
                                "replay": "watch_tools sim <json with work, cases:[{id, template, pre_delete, steps}]>"},
                })
    # a child that died inside a case: the compiler aborted / overflowed its stack in the incremental path
    for c in crashed:
        violations.append({
            "rule": "c08-watch-panic",
            "signature": "C20/c08-watch-panic/process-died",
            "what": f"watch_tools sim died (rc={c['rc']}) while running case {c['case']}: {c['stderr'][-150:]}",
            "witness": c,
        })

    # ---- real leg results -------------------------------------------------------------------
    real = {"sessions": len(real_results), "held": 0, "inconclusive": 0, "steps": 0, "comparisons": 0,
            "records_ok": 0, "records_error": 0, "probes": 0, "ops": {}}
    inconclusive_why = []
    for r in real_results:
        real["steps"] += r.get("steps", 0)
        real["comparisons"] += r.get("comparisons", 0)
        real["records_ok"] += r.get("records_ok", 0)
        real["records_error"] += r.get("records_error", 0)
        real["probes"] += r.get("probes", 0)
        wc.merge_counts(real["ops"], r.get("ops", {}))
        if r["status"] == "held":
            real["held"] += 1
        elif r["status"] == "inconclusive":
            real["inconclusive"] += 1
            inconclusive_why.append(r.get("why", "")[:200])
        else:
            violations.append({
                "rule": r["rule"],
                "signature": f"C20/{r['rule']}/{r['cause']}",
                "what": r["what"][:300],
                "witness": r.get("witness"),
            })
    real["inconclusive_reasons"] = inconclusive_why[:5]

    if real["sessions"] and real["inconclusive"] == real["sessions"] and not violations:
        raise Inconclusive("every real watch session was inconclusive: " + "; ".join(inconclusive_why[:2]))

    coverage = {
        "evaluations": int(counters.get("comparisons", 0)) + real["comparisons"],
        "distinct_nontrivial": len(fps),
        "rule": ("sim: generated project (isogen) re-laid-out into folders sharing name prefixes (a, ab, abc, a/b, a/bc, "
                 "a.ts.d, nested __isograph) + script of 3-25 steps (create/modify/atomic-replace/delete/rename/move in "
                 "and out/replace file by folder and back/touch/chmod of source, non-source, binary and __isograph-named "
                 "files and of folders, schema and extension edits, 20% multi-edit debounce windows, 25% garbage "
                 "collections); one evaluation = one comparison of the long-lived state with a fresh CompilerState "
                 "(artifact paths+bytes, diagnostics set, artifact directory on disk). A script is non-trivial when the "
                 "fresh outcome changed at least twice along it; distinct = distinct outcome traces. real: isograph_cli "
                 "--watch sessions, same generator, compared with a batch compile of a copy after every edit"),
        "samples": samples[:4],
        "scripts": cases_run,
        "sim": counters,
        "real": real,
        "crashed_children": len(crashed),
        "event_shapes_recheck": shapes or "thorough tier only",
    }
    return runner.finish(ctx, "exploration", coverage, violations, assumptions=ASSUMPTIONS)


def replay(ctx, path):
    return run(ctx)
