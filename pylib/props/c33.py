"""C33 - signed generated files verify, and any edit breaks the signature."""
import runner
import util_common as uc

LEVEL = "exploration"
RULE = (
    "util_tools signed builds contents from pieces: random ASCII/non-ASCII text incl. fragments of the markers, the "
    "documented SIGNING_TOKEN 1-4 times at uniform positions (adjacent, at start/end), sometimes the inner token "
    "without '@generated ', sometimes a pre-existing '@generated SignedSource<<32 hex>>' look-alike (lower/upper case, "
    "31 digits, without prefix). Oracle: is_valid_signature(sign_file(c)) is true; then for the signed file every "
    "single-character insertion / deletion / substitution (a different character) at every character position "
    "(files <= 160 chars: all positions; longer: 24 sampled positions plus the positions around every signature) "
    "outside the 32 hex digits of the signature(s) must make is_valid_signature false. The digit ranges are located "
    "by aligning the unsigned content, not with the crate's regex. Non-trivial content = >= 2 tokens, or a look-alike, "
    "or a bare inner token, or text besides the token; distinct = distinct contents across shards.")


def run(ctx):
    binary = uc.build()
    n = ctx.pick(48_000, 5_000_000)
    rep, crashes = uc.run_sharded(ctx, binary, "signed", "c33", n, 4000)
    if crashes:
        raise runner.Inconclusive(f"signed worker died: {crashes[0]}")
    violations = uc.finding_violations("C33", rep, "harness/target/verif/util_tools signed --file <content>")
    cov = {
        "evaluations": rep.get("contents", 0),
        "distinct_nontrivial": rep.get("distinct_across_shards", 0),
        "rule": RULE,
        "samples": rep.get("samples", [])[:2] or [{"note": "no short multi-token sample"}],
        "observed": {
            "contents": rep.get("contents", 0),
            "contents_by_token_count": rep.get("contents_by_token_count", {}),
            "contents_with_lookalike": rep.get("with_lookalike", 0),
            "contents_with_bare_inner_token": rep.get("with_bare_inner_token", 0),
            "non_ascii_contents": rep.get("non_ascii_contents", 0),
            "signed_and_verified": rep.get("signed_and_verified", 0),
            "single_character_edits_checked": rep.get("edits_checked", 0),
            "edits_by_kind": rep.get("edits_by_kind", {}),
            "edits_by_region": rep.get("edits_by_region", {}),
            "signature_counts": rep.get("signature_counts", {}),
        },
    }
    return runner.finish(ctx, LEVEL, cov, violations, assumptions=[
        "'the signing token' is the documented SIGNING_TOKEN constant ('@generated <<SignedSource::...>>'); content "
        "holding only the inner token without the '@generated ' prefix is out of scope",
        "MD5 collisions / fixed points are out of reach of a sampled workload",
    ])


def replay(ctx, path):
    return run(ctx)
