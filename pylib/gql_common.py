"""Shared machinery of C29 (relay graphql-syntax) and C30 (isograph graphql_schema_parser):
drives harness/gql_tools, compares crate results with the construction oracle and with gqlref,
classifies and shrinks disagreements.  A shard is a separate python process
(`python3 gql_common.py shard '<json>'`) so that 16 cores are used.
"""
import json
import os
import random
import re
import subprocess
import sys
import time

sys.path.insert(0, os.path.dirname(os.path.abspath(__file__)))
import gqlgen  # noqa: E402
import gqlref  # noqa: E402

TOOL = os.path.join(os.path.dirname(os.path.dirname(os.path.abspath(__file__))), "harness", "target", "verif", "gql_tools")


class ToolError(Exception):
    pass


# --------------------------------------------------------------------------------------------------
# driving gql_tools
# --------------------------------------------------------------------------------------------------
def run_tool(mode, texts, tool=None):
    """-> list of result dicts, one per text.  A document that kills the process (abort, stack
    overflow) gets {"ok": False, "crash": rc} and the rest is run in a fresh process."""
    tool = tool or TOOL
    results = [None] * len(texts)
    start = 0
    crashes = 0
    while start < len(texts):
        inp = "".join(json.dumps({"id": i, "text": texts[i]}) + "\n" for i in range(start, len(texts)))
        try:
            p = subprocess.run([tool, mode], input=inp.encode("utf-8", "surrogatepass"), stdout=subprocess.PIPE,
                               stderr=subprocess.PIPE, timeout=1800)
        except subprocess.TimeoutExpired:
            raise ToolError("gql_tools watchdog fired")
        last = start - 1
        for line in p.stdout.decode("utf-8", "replace").split("\n"):
            try:
                res = json.loads(line)
            except ValueError:
                continue
            if isinstance(res.get("id"), int):
                results[res["id"]] = res
                last = max(last, res["id"])
        if p.returncode == 0 and last == len(texts) - 1:
            break
        died = last + 1
        if died >= len(texts):
            raise ToolError("gql_tools exited with %s after answering everything: %s"
                            % (p.returncode, p.stderr.decode("utf-8", "replace")[-300:]))
        results[died] = {"id": died, "ok": False, "crash": p.returncode,
                         "stderr": p.stderr.decode("utf-8", "replace")[-300:]}
        crashes += 1
        if crashes > 50:
            raise ToolError("gql_tools keeps dying")
        start = died + 1
    for i, r in enumerate(results):
        if r is None:
            raise ToolError("no answer for document %d" % i)
    return results


# --------------------------------------------------------------------------------------------------
# projections: what each crate's tree can express
# --------------------------------------------------------------------------------------------------
RELAY_DESC_KINDS = ("DirectiveDefinition",)      # + FieldDefinition (no kind member)


def project_relay(node, in_fields_of_type=False):
    """reference tree -> the part of it relay's AST carries: descriptions exist only on directive
    definitions and on field definitions of object / interface types."""
    if isinstance(node, list):
        return [project_relay(x, in_fields_of_type) for x in node]
    if not isinstance(node, dict):
        return node
    k = node.get("kind")
    out = {}
    for key, v in node.items():
        if key == "description":
            is_field_def = in_fields_of_type and "arguments" in node and "type" in node and k is None
            if not (k in RELAY_DESC_KINDS or is_field_def):
                continue
            out[key] = project_relay(v)
        elif key == "fields" and k in ("ObjectTypeDefinition", "InterfaceTypeDefinition", "ObjectTypeExtension",
                                        "InterfaceTypeExtension"):
            out[key] = project_relay(v, True)
        else:
            out[key] = project_relay(v, False)
    return out


def project_iso(node):
    """reference tree -> isograph's GraphQLTypeSystemDocument: the schema definition keeps one type per
    root operation."""
    if isinstance(node, list):
        return [project_iso(x) for x in node]
    if not isinstance(node, dict):
        return node
    if node.get("kind") == "SchemaDefinition":
        roots = {"query": None, "mutation": None, "subscription": None}
        for o in node["operationTypes"]:
            roots[o["operation"]] = o["type"]
        return {"kind": "SchemaDefinition", "description": project_iso(node["description"]),
                "directives": project_iso(node["directives"]), "roots": roots}
    return {k: project_iso(v) for k, v in node.items()}


# --------------------------------------------------------------------------------------------------
# tree comparison
# --------------------------------------------------------------------------------------------------
def _rust_lines(s):
    """str::lines(): split at \\n, a trailing \\r of each line removed, no empty last line."""
    parts = s.split("\n")
    last = parts.pop()       # not terminated by \n: a trailing \r stays
    out = [p[:-1] if p.endswith("\r") else p for p in parts]
    if last != "":
        out.append(last)
    return out


def _block_model(raw, unescape, spec_lines):
    """what clean_block_string_literal computes, with two switches: whether `\\\"\"\"` is replaced and
    whether every LineTerminator (or only LF / CRLF, as str::lines does) separates lines."""
    if unescape:
        raw = raw.replace('\\"""', '"""')
    lines = re.split(r"\r\n|\n|\r", raw) if spec_lines else _rust_lines(raw)
    common = None
    for l in lines[1:]:
        ind = len(l) - len(l.lstrip(" \t"))
        if ind < len(l) and (common is None or ind < common):
            common = ind
    if common:
        lines = lines[:1] + [l[common:] for l in lines[1:]]
    while lines and not lines[0].strip(" \t"):
        lines.pop(0)
    while lines and not lines[-1].strip(" \t"):
        lines.pop()
    return "\n".join(lines)


def classify_string(ref, got_value):
    """ref: reference StringValue node with `raw`; got_value: the crate's value.  -> [class names]
    (one per independent cause that explains the difference)"""
    raw = ref.get("raw")
    if raw is None:
        return ["string-value-differs"]
    if not ref.get("block"):
        if got_value == raw and raw != ref["value"]:
            return ["quoted-string-escapes-not-decoded"]
        return ["quoted-string-unexplained"]
    for unescape in (True, False):
        for spec_lines in (True, False):
            if (unescape, spec_lines) == (True, True):
                continue
            if _block_model(raw, unescape, spec_lines) == got_value:
                parts = []
                if not unescape:
                    parts.append("block-string-escaped-triple-quote-kept")
                if not spec_lines:
                    parts.append("block-string-lone-CR-not-a-line-terminator")
                return parts
    return ["block-string-unexplained"]


def _f64_bits(lexeme):
    import struct
    try:
        f = float(lexeme)
    except (ValueError, OverflowError):
        return None
    return "%016x" % struct.unpack("<Q", struct.pack("<d", f))[0]


def diff(ref, got, path, out, ref_has_raw=True):
    """collect differences between a (projected) reference tree and a crate tree.
    out entries: (generalised path, class, detail)"""
    if isinstance(ref, dict) and isinstance(got, dict):
        k = ref.get("kind")
        if k != got.get("kind"):
            out.append((path, "kind", "%r vs %r" % (k, got.get("kind"))))
            return
        if k == "StringValue":
            if "block" in got and got["block"] != ref.get("block"):
                out.append((path, "string-block-flag", "%r vs %r" % (ref.get("block"), got["block"])))
            if "raw" in got and "raw" in ref and got["raw"] != ref["raw"]:
                out.append((path, "string-raw-extent", "%r vs %r" % (ref["raw"][:40], got["raw"][:40])))
            if got.get("value") != ref["value"]:
                for cls in classify_string(ref, got.get("value")):
                    out.append((path, cls, "expected %r got %r (source %r)"
                                % (ref["value"][:60], (got.get("value") or "")[:60], (ref.get("raw") or "")[:60])))
            return
        if k == "IntValue":
            if "value" in got and got["value"] != ref["value"]:
                out.append((path, "int-lexeme", "%r vs %r" % (ref["value"], got["value"])))
            if str(int(ref["value"])) != got.get("parsed"):
                out.append((path, "int-value", "%r vs %r" % (ref["value"], got.get("parsed"))))
            return
        if k == "FloatValue":
            if "value" in got and got["value"] != ref["value"]:
                out.append((path, "float-lexeme", "%r vs %r" % (ref["value"], got["value"])))
            if got.get("bits") != _f64_bits(ref["value"]):
                out.append((path, "float-value", "%r vs bits %r" % (ref["value"], got.get("bits"))))
            return
        for key in ref:
            if key == "raw":
                continue
            if key not in got:
                out.append((path + "." + key, "member-missing", "crate tree has no %s" % key))
                continue
            diff(ref[key], got[key], path + "." + key, out)
        for key in got:
            if key not in ref and key not in ("shorthand",):
                out.append((path + "." + key, "member-unexpected", "crate tree has %s = %s"
                            % (key, json.dumps(got[key])[:80])))
        return
    if isinstance(ref, list) and isinstance(got, list):
        if len(ref) != len(got):
            out.append((path + "[]", "length", "%d vs %d" % (len(ref), len(got))))
            return
        for a, b in zip(ref, got):
            diff(a, b, path + "[]", out)
        return
    if ref != got or type(ref) is not type(got):
        out.append((path, "value", "%r vs %r" % (ref, got)))


def diff_roundtrip(t1, t2, path, out):
    """tree of parse(text) vs tree of parse(print(parse(text))) - both from the crate.  Equal means equal
    as the crate's own AST is (spans ignored): ints by value, floats by source text."""
    if isinstance(t1, dict) and isinstance(t2, dict):
        k = t1.get("kind")
        if k != t2.get("kind"):
            out.append((path, "kind", "%r vs %r" % (k, t2.get("kind"))))
            return
        for key in t1:
            if key in ("raw", "lexeme", "repeatable") or (k == "IntValue" and key == "value") \
                    or (k == "StringValue" and key == "block"):
                continue      # `repeatable` is post-2018 syntax: out of scope
            if key not in t2:
                out.append((path + "." + key, "member-missing", ""))
                continue
            if (t1[key] is None) != (t2[key] is None):
                out.append((path + "." + key, "dropped" if t2[key] is None else "appeared",
                            "%s vs %s" % (json.dumps(t1[key])[:60], json.dumps(t2[key])[:60])))
                continue
            diff_roundtrip(t1[key], t2[key], path + "." + key, out)
        return
    if isinstance(t1, list) and isinstance(t2, list):
        if len(t1) != len(t2):
            out.append((path + "[]", "length", "%d vs %d" % (len(t1), len(t2))))
            return
        for a, b in zip(t1, t2):
            diff_roundtrip(a, b, path + "[]", out)
        return
    if t1 != t2:
        out.append((path, "value", "%r vs %r" % (t1, t2)))


# --------------------------------------------------------------------------------------------------
# judging one batch
# --------------------------------------------------------------------------------------------------
def norm_message(msg):
    """crate error message -> coarse cause (identifiers and numbers removed)."""
    msg = re.sub(r",? found .*$", "", msg)          # what was found instead depends on the document, not on the cause
    msg = re.sub(r"`[^`]*`|\"[^\"]*\"|'[^']*'", "<x>", msg)
    msg = re.sub(r"Received \S+", "Received <x>", msg)
    msg = re.sub(r"\d+", "<n>", msg)
    return msg.strip()[:90]


class Target(object):
    """what is being checked: (pid, kind of document, tool mode, reference parse fn, projection)."""

    def __init__(self, pid, doc_kind, mode, dialect=None):
        self.pid = pid
        self.dialect = dict(dialect or {})
        self.doc_kind = doc_kind      # exec | schema | iso-base | iso-ext
        self.mode = mode
        self.parse = gqlref.parse_executable if doc_kind == "exec" else gqlref.parse_schema
        self.project = {"relay-exec": lambda t: t, "relay-schema": project_relay,
                        "iso-schema": project_iso, "iso-extension": project_iso}[mode]

    def in_subset(self, ast):
        """C30: is a document the reference accepts inside isograph's supported subset?
        -> None if inside, else the reason."""
        if self.doc_kind not in ("iso-base", "iso-ext"):
            return None
        for d in ast["definitions"]:
            k = d["kind"]
            if k.endswith("Extension"):
                if self.doc_kind == "iso-base":
                    return "extension in the base schema document"
                if k != "ObjectTypeExtension":
                    return "extension other than `extend type`"
            if k == "SchemaDefinition":
                ops = [o["operation"] for o in d["operationTypes"]]
                if len(set(ops)) != len(ops):
                    return "root operation type given twice"
        return None

    def reference(self, text):
        """-> ("accept", ast) | ("reject", code) | ("post2018", None)"""
        try:
            return "accept", self.parse(text, **self.dialect)
        except gqlref.GraphQLSyntaxError as e:
            code = e.code
        if self.dialect:
            return "reject", code
        try:
            self.parse(text, **gqlref.POST_2018)
            return "post2018", None
        except gqlref.GraphQLSyntaxError:
            return "reject", code


def _has_int_beyond_i64(node):
    if isinstance(node, dict):
        if node.get("kind") == "IntValue":
            return not (-2 ** 63 <= int(node["value"]) < 2 ** 63)
        return any(_has_int_beyond_i64(v) for v in node.values())
    if isinstance(node, list):
        return any(_has_int_beyond_i64(v) for v in node)
    return False


def _has_risky_block_string(node):
    if isinstance(node, dict):
        if node.get("kind") == "StringValue" and node.get("block") and re.search(r'["\\\n\r]', node.get("value") or ""):
            return True
        return any(_has_risky_block_string(v) for v in node.values())
    if isinstance(node, list):
        return any(_has_risky_block_string(v) for v in node)
    return False


_SECOND_STRING = re.compile(r"^(FieldDefinition:expected-Name|TypeSystemDefinition:expected-keyword):found-(String|BlockString)$")


def coarse_code(code):
    """gqlref error code -> cause: a second string where the definition should start is one cause."""
    if _SECOND_STRING.match(code):
        return "second-string-after-description"
    return code


def crate_verdict(res):
    if res.get("crash") is not None:
        return "crash"
    if res.get("panic") is not None and not res.get("ok"):
        return "panic"
    return "accept" if res.get("ok") else "reject"


def judge(target, text, res, expected=None):
    """-> list of problems: dict(rule, cls, detail).  expected: construction-oracle tree or None."""
    problems = []
    cv = crate_verdict(res)
    if cv == "crash":
        return [{"rule": "crash", "cls": "rc=%s" % res["crash"], "detail": res.get("stderr", "")[-200:]}], "crash"
    if cv == "panic":
        return [{"rule": "panic", "cls": norm_message(res["panic"]), "detail": res["panic"][:200]}], "panic"
    rv, ref = target.reference(text)
    if expected is not None:
        if rv != "accept":
            return [{"rule": "harness", "cls": "gqlref-rejects-constructed-document", "detail": str(ref)}], "harness"
        if gqlref.strip_raw(ref) != expected:
            return [{"rule": "harness", "cls": "gqlref-differs-from-construction", "detail": ""}], "harness"
    if rv == "post2018":
        return [], "post2018-" + cv
    if rv == "accept":
        why = target.in_subset(ref)
        if why is not None:
            return [], "outside-subset-" + cv
        if cv == "reject":
            msg = res["errors"][0]["message"] if res.get("errors") else "?"
            return [{"rule": "rejects-valid", "cls": norm_message(msg), "detail": msg[:200]}], "rejects-valid"
        out = []
        diff(target.project(ref), res["tree"], "", out)
        structural = [o for o in out if not o[1].startswith(("quoted-string", "block-string", "string-value"))]
        if structural and _has_int_beyond_i64(ref):
            # one cause: an integer literal that does not fit i64 was consumed and the parse went on
            problems.append({"rule": "tree", "cls": "int-literal-beyond-i64-skipped-silently",
                             "detail": "%s: %s" % (structural[0][0], structural[0][2])})
            out = [o for o in out if o not in structural]
        for path, cls, detail in out:
            if cls.startswith(("quoted-string", "block-string", "string-value")):
                problems.append({"rule": "string-value", "cls": cls, "detail": "%s: %s" % (path, detail)})
            else:
                short = ".".join(path.split(".")[-2:])
                problems.append({"rule": "tree", "cls": "%s:%s" % (short, cls), "detail": "%s: %s" % (path, detail)})
        if target.mode == "relay-schema":
            rp = res.get("reparse") or {}
            # the printer writes every string value as `"` + value + `"`: a block string whose value has a
            # quote, backslash or line break cannot come back; all damage it does is one cause
            risky = _has_risky_block_string(res["tree"])
            if rp.get("panic") is not None or res.get("printed") is None:
                problems.append({"rule": "print-roundtrip", "cls": "panic", "detail": str(rp.get("panic"))[:200]})
            elif not rp.get("ok"):
                msg = rp["errors"][0]["message"] if rp.get("errors") else "?"
                problems.append({"rule": "print-roundtrip",
                                 "cls": "block-string-printed-in-plain-quotes" if risky else "reparse-fails",
                                 "detail": "%s; printed %r" % (msg, res["printed"][:200])})
            else:
                out = []
                diff_roundtrip(res["tree"], rp["tree"], "", out)
                seen_cls = set()
                for path, cls, detail in out:
                    c = "%s:%s" % (path, cls)
                    if cls != "dropped" and risky:
                        c = "block-string-printed-in-plain-quotes"
                    if c not in seen_cls:
                        seen_cls.add(c)
                        problems.append({"rule": "print-roundtrip", "cls": c, "detail": "%s: %s" % (path, detail)})
        return problems, "agree-accept" if not problems else "accept-with-differences"
    # reference rejects
    if cv == "accept":
        return [{"rule": "accepts-invalid", "cls": coarse_code(ref), "detail": "reference: " + ref}], "accepts-invalid"
    return [], "agree-reject"


# --------------------------------------------------------------------------------------------------
# shrinking (token level ddmin; the predicate is evaluated in batches through the tool)
# --------------------------------------------------------------------------------------------------
def lex_tokens(text):
    """best-effort token lexemes of an arbitrary text (for shrinking): gqlref tokens when the text
    lexes, else a crude split."""
    try:
        return [v for k, v, p in gqlref.tokenize(text) if k != "EOF"]
    except gqlref.GraphQLSyntaxError:
        return re.findall(r'"""(?:[^"\\]|\\.|"(?!""))*"""|"(?:[^"\\\n\r]|\\.)*"|[_A-Za-z][_0-9A-Za-z]*|-?[0-9][0-9A-Za-z_.+-]*'
                          r'|\.\.\.|\S', text)


def join_tokens(tokens):
    out = []
    prev = None
    for t in tokens:
        if prev is not None and not gqlgen._can_touch(prev, t):
            out.append(" ")
        out.append(t)
        prev = t
    return "".join(out)


def simplify_token(t):
    if t.startswith('"""') and t != '"""x"""':
        return '"""x"""'
    if t.startswith('"') and not t.startswith('"""') and t != '"x"':
        return '"x"'
    if re.match(r"-?[0-9]+$", t) and t != "1":
        return "1"
    if re.match(r"-?[0-9]+[.eE]", t) and t != "1.5":
        return "1.5"
    if re.match(r"[_A-Za-z]", t) and len(t) > 1 and t not in gqlgen.KEYWORDS and t not in gqlgen.EXEC_LOCS \
            and t not in gqlgen.TS_LOCS:
        return "a"
    return None


def shrink(target, tokens, same, max_rounds=60):
    """tokens: list of lexemes with the problem; same(text, res) -> bool (problem still there).
    Deletes chunks and simplifies tokens while `same` holds."""
    cur = list(tokens)
    for _ in range(max_rounds):
        cands = []
        n = len(cur)
        size = max(1, n // 2)
        while size >= 1:
            for i in range(0, n - size + 1, max(1, size // 2) if size > 1 else 1):
                cands.append(cur[:i] + cur[i + size:])
            size //= 2
        for i, t in enumerate(cur):
            s = simplify_token(t)
            if s is not None:
                cands.append(cur[:i] + [s] + cur[i + 1:])
        cands = [c for c in cands if c != cur]
        if not cands:
            break
        texts = [join_tokens(c) for c in cands]
        results = run_tool(target.mode, texts)
        best = None
        for c, text, res in zip(cands, texts, results):
            if same(text, res) and (best is None or len(c) < len(best)
                                    or (len(c) == len(best) and len(join_tokens(c)) < len(join_tokens(best)))):
                best = c
                if len(c) <= len(cur) // 2:
                    break
        if best is None:
            break
        cur = best
    return cur


def make_same(target, problem):
    rule, cls = problem["rule"], problem["cls"]

    def same(text, res):
        probs, _ = judge(target, text, res)
        return any(p["rule"] == rule and p["cls"] == cls for p in probs)
    return same


# --------------------------------------------------------------------------------------------------
# shard
# --------------------------------------------------------------------------------------------------
def shard(args):
    """args: {pid, doc_kind, mode, seed, count, fixed:[texts]?}.  Generates `count` documents (60 %
    constructed, 30 % mutated, 10 % edge snippets), runs them, judges them."""
    target = Target(args["pid"], args["doc_kind"], args["mode"])
    seed = args["seed"]
    rnd = random.Random(seed)
    gen = gqlgen.Gen(seed ^ 0x5EED, args["doc_kind"])
    count = args["count"]
    rep = {"documents": 0, "constructed": 0, "mutated": 0, "snippets": 0, "verdicts": {}, "features": {},
           "nontrivial": 0, "problems": {}, "samples": [], "by_origin": {}, "mutation_ops": {},
           "reference_reject_codes": {}, "compared_nodes": {}}
    t0 = time.time()
    batch_size = 2000
    snippets = gqlgen.EXEC_SNIPPETS if args["doc_kind"] == "exec" else gqlgen.SCHEMA_SNIPPETS
    structs = gqlgen.STRUCT_EDGES_EXEC if args["doc_kind"] == "exec" else gqlgen.STRUCT_EDGES_SCHEMA
    if args["pid"] == "C30":
        structs = structs + gqlgen.ISO_CHARSET_EDGES
    done = 0
    fixed = list(args.get("fixed") or [])
    while done < count or fixed:
        docs = []      # (origin, text, expected, tokens, features)
        for t in fixed:
            docs.append(("fixed", t, None, None, ()))
        fixed = []
        n = min(batch_size, count - done)
        for _ in range(n):
            x = rnd.random()
            if x < 0.6:
                ast, toks = gen.document()
                docs.append(("constructed", gqlgen.render(toks, rnd), ast, toks, frozenset(gen.feat)))
            elif x < 0.9:
                ast, toks = gen.document()
                mt, ops = gqlgen.mutate(toks, rnd)
                for o in ops:
                    k = o.split(" ")[0]
                    rep["mutation_ops"][k] = rep["mutation_ops"].get(k, 0) + 1
                docs.append(("mutated", gqlgen.render(mt, rnd, rnd.choice(["min", "space", "wild"])), None, mt, ()))
            else:
                if rnd.random() < 0.6:
                    sn = rnd.choice(snippets)
                    text = sn % tuple(rnd.choice(gqlgen.VALUE_EDGES) for _ in range(sn.count("%s")))
                else:
                    text = rnd.choice(structs)
                docs.append(("snippets", text, None, None, ()))
        done += n
        results = run_tool(target.mode, [d[1] for d in docs])
        if args.get("second_opinion"):
            # a code-independent third opinion on accept / reject (relay's parser for isograph's documents)
            so = rep.setdefault("second_opinion", {"mode": args["second_opinion"], "agrees_with_gqlref": 0,
                                                   "disagrees_with_gqlref": 0, "disagreement_examples": []})
            for d, r2 in zip(docs, run_tool(args["second_opinion"], [d[1] for d in docs])):
                rv = target.reference(d[1])[0]
                cv2 = crate_verdict(r2)
                if rv == "post2018":
                    continue
                if (rv == "accept") == (cv2 == "accept"):
                    so["agrees_with_gqlref"] += 1
                else:
                    so["disagrees_with_gqlref"] += 1
                    if len(so["disagreement_examples"]) < 3 and len(d[1]) < 120:
                        so["disagreement_examples"].append({"text": d[1], "gqlref": rv, "relay": cv2})
        for (origin, text, expected, toks, feats), res in zip(docs, results):
            rep["documents"] += 1
            if origin in rep:
                rep[origin] += 1
            problems, verdict = judge(target, text, res, expected)
            rep["verdicts"][verdict] = rep["verdicts"].get(verdict, 0) + 1
            bo = rep["by_origin"].setdefault(origin, {})
            bo[verdict] = bo.get(verdict, 0) + 1
            for f in feats:
                rep["features"][f] = rep["features"].get(f, 0) + 1
            if origin == "constructed" and verdict in ("agree-accept", "accept-with-differences") and \
                    nontrivial(target, feats):
                rep["nontrivial"] += 1
                if len(rep["samples"]) < 3 and len(text) < 400:
                    rep["samples"].append({"origin": origin, "text": text, "verdict": verdict})
            if origin != "constructed" and verdict in ("agree-reject",) and len(rep["samples"]) < 5 and len(text) < 200 \
                    and rnd.random() < 0.02:
                rep["samples"].append({"origin": origin, "text": text, "verdict": verdict})
            for p in problems:
                key = p["rule"] + "|" + p["cls"]
                slot = rep["problems"].setdefault(key, {"rule": p["rule"], "cls": p["cls"], "count": 0, "examples": []})
                slot["count"] += 1
                if len(slot["examples"]) < 2 or len(text) < min(len(e["text"]) for e in slot["examples"]):
                    slot["examples"].append({"text": text, "detail": p["detail"], "origin": origin})
                    slot["examples"].sort(key=lambda e: len(e["text"]))
                    del slot["examples"][2:]
    rep["seconds"] = round(time.time() - t0, 2)
    return rep


def nontrivial(target, feats):
    if target.pid == "C30":
        return bool(feats & {"description", "default-value", "directive", "block-string", "string-escape"})
    return bool(feats & {"block-string", "string-escape", "string-unicode-escape", "float-value", "directive",
                         "variable-default", "default-value", "description", "inline-fragment", "list-value",
                         "object-value"})


def merge_reports(reps):
    total = {"documents": 0, "constructed": 0, "mutated": 0, "snippets": 0, "verdicts": {}, "features": {},
             "nontrivial": 0, "problems": {}, "samples": [], "by_origin": {}, "mutation_ops": {}, "seconds": 0}
    for r in reps:
        for k in ("documents", "constructed", "mutated", "snippets", "nontrivial"):
            total[k] += r[k]
        total["seconds"] = max(total["seconds"], r["seconds"])
        for k in ("verdicts", "features", "mutation_ops"):
            for a, b in r[k].items():
                total[k][a] = total[k].get(a, 0) + b
        for o, d in r["by_origin"].items():
            t = total["by_origin"].setdefault(o, {})
            for a, b in d.items():
                t[a] = t.get(a, 0) + b
        total["samples"].extend(r["samples"])
        if "second_opinion" in r:
            so = total.setdefault("second_opinion", {"mode": r["second_opinion"]["mode"], "agrees_with_gqlref": 0,
                                                     "disagrees_with_gqlref": 0, "disagreement_examples": []})
            so["agrees_with_gqlref"] += r["second_opinion"]["agrees_with_gqlref"]
            so["disagrees_with_gqlref"] += r["second_opinion"]["disagrees_with_gqlref"]
            so["disagreement_examples"] = (so["disagreement_examples"] + r["second_opinion"]["disagreement_examples"])[:3]
        for key, slot in r["problems"].items():
            t = total["problems"].setdefault(key, {"rule": slot["rule"], "cls": slot["cls"], "count": 0, "examples": []})
            t["count"] += slot["count"]
            t["examples"].extend(slot["examples"])
            t["examples"].sort(key=lambda e: len(e["text"]))
            del t["examples"][3:]
    return total


def violations_from(target, total, shrink_budget=40, known=()):
    """one violation per (rule, class); the witness is the smallest example, shrunk (examples of
    signatures listed in `known` - already recorded findings - are not shrunk again)."""
    out = []
    for key in sorted(total["problems"]):
        slot = total["problems"][key]
        ex = slot["examples"][0]
        rule, cls = slot["rule"], slot["cls"]
        shrunk = ex["text"]
        if rule != "harness" and "%s/%s/%s" % (target.pid, rule, cls) not in known:
            try:
                toks = lex_tokens(ex["text"])
                res0 = run_tool(target.mode, [join_tokens(toks)])[0]
                same = make_same(target, slot)
                if same(join_tokens(toks), res0):
                    shrunk = join_tokens(shrink(target, toks, same, shrink_budget))
            except ToolError:
                pass
        sig = "%s/%s/%s" % (target.pid, rule, cls)
        out.append({"rule": rule, "signature": sig,
                    "what": "%s (%d document(s)); e.g. %r: %s" % (rule, slot["count"], shrunk[:120], ex["detail"][:160]),
                    "witness": {"mode": target.mode, "shrunk": shrunk, "original": ex["text"][:2000],
                                "detail": ex["detail"][:500], "occurrences": slot["count"],
                                "replay": "echo '{\"id\":0,\"text\":<json string of shrunk>}' | harness/target/verif/gql_tools "
                                          + target.mode}})
    return out


if __name__ == "__main__":
    if len(sys.argv) >= 3 and sys.argv[1] == "shard":
        a = json.loads(sys.argv[2])
        if "tool" in a:
            TOOL = a["tool"]
        try:
            print(json.dumps({"report": shard(a)}))
        except ToolError as e:
            print(json.dumps({"tool_error": str(e)}))
