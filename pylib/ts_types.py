"""Model of the TypeScript *type sub-language* the isograph printers emit (param_type.ts,
raw_response_type.ts, iso.ts overloads) plus the E3 glue shared by C24 and C27.

No TypeScript checker exists offline, so this is a small hand-written tokenizer + recursive
descent parser for exactly the constructs found in generated files:

    object types  { readonly a?: T, get b(): T, set b(value: T), }      (',' or ';' separators, doc comments)
    unions / intersections / parentheses, string-literal types, `null`
    references with type arguments  ReadonlyArray<T>, LoadableField<A, B, C>, Omit<X, keyof {...}>
    `keyof T`, `typeof x`

Type AST (plain dicts, JSON-able):
    {"k":"object","members":[{"name","optional","readonly","accessor":None|"get"|"set","type"}]}
    {"k":"union","types":[...]}   {"k":"inter","types":[...]}
    {"k":"array","elem":T}        (ReadonlyArray<T> / Array<T>)
    {"k":"ref","name":N,"args":[...]}     (string, number, boolean, unknown, X__y__output_type, LoadableField<..>)
    {"k":"lit","value":S}  {"k":"null"}  {"k":"keyof","type":T}  {"k":"typeof","name":N}
"""
import os
import random
import re
import shutil

import isogen


class TsParseError(Exception):
    pass


# ---------------------------------------------------------------------------
# tokenizer
# ---------------------------------------------------------------------------
_ID_START = re.compile(r"[A-Za-z_$]")
_ID = re.compile(r"[A-Za-z_$][A-Za-z0-9_$]*")
_NUM = re.compile(r"-?[0-9]+(\.[0-9]+)?")
_ESC = {"n": "\n", "t": "\t", "r": "\r", "b": "\b", "f": "\f", "v": "\v", "0": "\0", "\n": ""}


def decode_js_string(body):
    """Cooked value of the inside of a '...' / "..." literal."""
    out, i, n = [], 0, len(body)
    while i < n:
        c = body[i]
        if c != "\\":
            out.append(c)
            i += 1
            continue
        i += 1
        if i >= n:
            break
        e = body[i]
        if e == "u":
            if body[i + 1:i + 2] == "{":
                j = body.index("}", i)
                out.append(chr(int(body[i + 2:j], 16)))
                i = j + 1
            else:
                out.append(chr(int(body[i + 1:i + 5], 16)))
                i += 5
            continue
        if e == "x":
            out.append(chr(int(body[i + 1:i + 3], 16)))
            i += 3
            continue
        out.append(_ESC.get(e, e))
        i += 1
    return "".join(out)


def tokenize(src):
    """-> list of (kind, value, pos); kinds: id, str, tpl, num, p (punctuation)."""
    toks, i, n = [], 0, len(src)
    while i < n:
        c = src[i]
        if c in " \t\r\n\f\ufeff":
            i += 1
            continue
        if c == "/" and src[i + 1:i + 2] == "/":
            j = src.find("\n", i)
            i = n if j < 0 else j
            continue
        if c == "/" and src[i + 1:i + 2] == "*":
            j = src.find("*/", i + 2)
            if j < 0:
                raise TsParseError(f"unterminated comment at {i}")
            i = j + 2
            continue
        if c in "'\"":
            j = i + 1
            while j < n and src[j] != c:
                if src[j] == "\\":
                    j += 1
                if j < n and src[j] == "\n" and src[j - 1] != "\\":
                    raise TsParseError(f"line break in string literal at {i}")
                j += 1
            if j >= n:
                raise TsParseError(f"unterminated string at {i}")
            toks.append(("str", decode_js_string(src[i + 1:j]), i))
            i = j + 1
            continue
        if c == "`":
            j = i + 1
            while j < n and src[j] != "`":
                if src[j] == "\\":
                    j += 1
                j += 1
            if j >= n:
                raise TsParseError(f"unterminated template at {i}")
            toks.append(("tpl", src[i + 1:j], i))
            i = j + 1
            continue
        m = _ID.match(src, i)
        if m:
            toks.append(("id", m.group(0), i))
            i = m.end()
            continue
        m = _NUM.match(src, i)
        if m:
            toks.append(("num", m.group(0), i))
            i = m.end()
            continue
        if src.startswith("=>", i) or src.startswith("...", i):
            w = 2 if src[i] == "=" else 3
            toks.append(("p", src[i:i + w], i))
            i += w
            continue
        if c in "{}()<>[]|&,;:?=.+-*!":
            toks.append(("p", c, i))
            i += 1
            continue
        raise TsParseError(f"unexpected character {c!r} at {i}")
    return toks


# ---------------------------------------------------------------------------
# type parser
# ---------------------------------------------------------------------------
class _P:
    def __init__(self, toks, i=0):
        self.t, self.i = toks, i

    def peek(self, k=0):
        j = self.i + k
        return self.t[j] if j < len(self.t) else ("eof", None, -1)

    def at(self, kind, val=None, k=0):
        t = self.peek(k)
        return t[0] == kind and (val is None or t[1] == val)

    def eat(self, kind, val=None):
        t = self.peek()
        if t[0] != kind or (val is not None and t[1] != val):
            raise TsParseError(f"expected {val or kind}, found {t[1]!r} at {t[2]}")
        self.i += 1
        return t

    # Type := ['|'] Inter ('|' Inter)*
    def type(self):
        if self.at("p", "|"):
            self.i += 1
        parts = [self.inter()]
        while self.at("p", "|"):
            self.i += 1
            parts.append(self.inter())
        if len(parts) == 1:
            return parts[0]
        flat = []
        for p in parts:
            flat += p["types"] if p["k"] == "union" else [p]
        return {"k": "union", "types": flat}

    def inter(self):
        parts = [self.postfix()]
        while self.at("p", "&"):
            self.i += 1
            parts.append(self.postfix())
        return parts[0] if len(parts) == 1 else {"k": "inter", "types": parts}

    def postfix(self):
        t = self.primary()
        while self.at("p", "[") and self.at("p", "]", 1):
            self.i += 2
            t = {"k": "array", "elem": t}
        return t

    def primary(self):
        t = self.peek()
        if t[0] == "p" and t[1] == "(":
            self.i += 1
            inner = self.type()
            self.eat("p", ")")
            return inner
        if t[0] == "p" and t[1] == "{":
            return self.object()
        if t[0] == "str":
            self.i += 1
            return {"k": "lit", "value": t[1]}
        if t[0] == "num":
            self.i += 1
            return {"k": "lit", "value": t[1]}
        if t[0] == "tpl":
            self.i += 1
            return {"k": "tpl", "raw": t[1]}
        if t[0] == "id":
            self.i += 1
            if t[1] == "null":
                return {"k": "null"}
            if t[1] == "keyof":
                return {"k": "keyof", "type": self.postfix()}
            if t[1] == "typeof":
                return {"k": "typeof", "name": self.eat("id")[1]}
            name = t[1]
            while self.at("p", ".") and self.at("id", None, 1):
                name += "." + self.peek(1)[1]
                self.i += 2
            args = []
            if self.at("p", "<"):
                self.i += 1
                while not self.at("p", ">"):
                    args.append(self.type())
                    if self.at("p", ","):
                        self.i += 1
                self.eat("p", ">")
            if name in ("ReadonlyArray", "Array") and len(args) == 1:
                return {"k": "array", "elem": args[0]}
            return {"k": "ref", "name": name, "args": args}
        raise TsParseError(f"unexpected token {t[1]!r} at {t[2]} in type")

    def prop_name(self):
        t = self.peek()
        if t[0] in ("id", "str", "num"):
            self.i += 1
            return t[1]
        raise TsParseError(f"expected property name, found {t[1]!r} at {t[2]}")

    def object(self):
        self.eat("p", "{")
        members = []
        while not self.at("p", "}"):
            ro, acc = False, None
            if self.at("id", "readonly") and not (self.at("p", ":", 1) or self.at("p", "?", 1)):
                ro = True
                self.i += 1
            if (self.at("id", "get") or self.at("id", "set")) and self.peek(1)[0] in ("id", "str") and self.at("p", "(", 2):
                acc = self.peek()[1]
                self.i += 1
            name = self.prop_name()
            opt = False
            if acc == "get":
                self.eat("p", "(")
                self.eat("p", ")")
                self.eat("p", ":")
                ty = self.type()
            elif acc == "set":
                self.eat("p", "(")
                self.eat("id")
                self.eat("p", ":")
                ty = self.type()
                self.eat("p", ")")
            else:
                if self.at("p", "?"):
                    opt = True
                    self.i += 1
                self.eat("p", ":")
                ty = self.type()
            members.append({"name": name, "optional": opt, "readonly": ro, "accessor": acc, "type": ty})
            if self.at("p", ",") or self.at("p", ";"):
                self.i += 1
        self.eat("p", "}")
        return {"k": "object", "members": members}


def parse_type(text):
    toks = tokenize(text)
    p = _P(toks)
    t = p.type()
    if p.peek()[0] != "eof":
        raise TsParseError(f"trailing tokens after type at {p.peek()[2]}")
    return t


def parse_type_aliases(text):
    """`export type X = T;` declarations of a generated type file -> {X: type AST}.
    import statements are skipped; anything else is an error (the file is not of the modelled shape)."""
    toks = tokenize(text)
    p = _P(toks)
    out = {}
    while p.peek()[0] != "eof":
        if p.at("id", "import"):
            while not p.at("str"):
                if p.peek()[0] == "eof":
                    raise TsParseError("unterminated import")
                p.i += 1
            p.i += 1
            if p.at("p", ";"):
                p.i += 1
            continue
        if p.at("id", "export"):
            p.i += 1
        if p.at("id", "type"):
            p.i += 1
            name = p.eat("id")[1]
            p.eat("p", "=")
            out[name] = p.type()
            if p.at("p", ";"):
                p.i += 1
            continue
        t = p.peek()
        raise TsParseError(f"unexpected top-level token {t[1]!r} at {t[2]}")
    return out


# ---------------------------------------------------------------------------
# helpers over type ASTs
# ---------------------------------------------------------------------------
def split_null(t):
    """-> (nullable, type without the null member)"""
    if t["k"] == "null":
        return True, None
    if t["k"] != "union":
        return False, t
    rest = [x for x in t["types"] if x["k"] != "null"]
    nullable = len(rest) != len(t["types"])
    if len(rest) == 1:
        return nullable, rest[0]
    return nullable, {"k": "union", "types": rest}


def wrapper_sig(t):
    """'?'/'!' per level and '[..]' per list: `(ReadonlyArray<(X | null)> | null)` -> ('?[?T]', X)."""
    nullable, core = split_null(t)
    p = "?" if nullable else "!"
    if core is not None and core["k"] == "array":
        s, inner = wrapper_sig(core["elem"])
        return p + "[" + s + "]", inner
    return p + "T", core


def gql_sig(t):
    """Same signature from a gqlref type AST."""
    if t["kind"] == "NonNullType":
        return "!" + gql_sig(t["type"])[1:]
    if t["kind"] == "ListType":
        return "?[" + gql_sig(t["type"]) + "]"
    return "?T"


def gql_named(t):
    while t["kind"] != "NamedType":
        t = t["type"]
    return t["name"]


def sig_features(sig):
    f = set()
    if "[" in sig:
        f.add("list")
        if sig.count("[") > 1:
            f.add("nested-list")
        if "[?" in sig:
            f.add("list-of-nullable")
    if sig.startswith("?"):
        f.add("nullable")
    return f


def object_variants(core):
    """object -> [object]; union of objects -> list; else None."""
    if core is None:
        return None
    if core["k"] == "object":
        return [core]
    if core["k"] == "union" and all(x["k"] == "object" for x in core["types"]):
        return list(core["types"])
    return None


def idents_in(t, out=None):
    """all reference names mentioned in a type AST."""
    out = out if out is not None else []
    k = t["k"]
    if k == "ref":
        out.append(t["name"])
        for a in t["args"]:
            idents_in(a, out)
    elif k == "typeof":
        out.append(t["name"])
    elif k in ("union", "inter"):
        for x in t["types"]:
            idents_in(x, out)
    elif k == "array":
        idents_in(t["elem"], out)
    elif k == "keyof":
        idents_in(t["type"], out)
    elif k == "object":
        for m in t["members"]:
            idents_in(m["type"], out)
    return out


# ---------------------------------------------------------------------------
# iso.ts: overloads + the type-level definitions the file itself contains
# ---------------------------------------------------------------------------
_IMPORT_NAMED = re.compile(r"import\s*(?:type\s*)?\{([^}]*)\}\s*from\s*'([^']*)'")
_IMPORT_DEFAULT = re.compile(r"import\s+([A-Za-z_$][A-Za-z0-9_$]*)\s+from\s*'([^']*)'")
_TARGET_PARAM = re.compile(r"^\./([^/]+)/([^/]+)/param_type(?:\.ts)?$")
_TARGET_EP = re.compile(r"^(?:\.\./__isograph|\.)/([^/]+)/([^/]+)/entrypoint(?:\.ts)?$")


def strip_comments(src):
    """comments removed, string/template literals kept."""
    out, i, n = [], 0, len(src)
    while i < n:
        c = src[i]
        if c == "/" and src[i + 1:i + 2] == "/":
            j = src.find("\n", i)
            i = n if j < 0 else j
            continue
        if c == "/" and src[i + 1:i + 2] == "*":
            j = src.find("*/", i + 2)
            i = n if j < 0 else j + 2
            continue
        if c in "'\"`":
            j = i + 1
            while j < n and src[j] != c:
                if src[j] == "\\":
                    j += 1
                j += 1
            out.append(src[i:j + 1])
            i = j + 1
            continue
        out.append(c)
        i += 1
    return "".join(out)


def _norm(s):
    return re.sub(r"\s+", "", s)


class IsoTs:
    """Parsed iso.ts: `ws_chars` (members of WhitespaceCharacter), `model` (which matching model the
    definitions in the file correspond to, or None when they are not of the modelled shape), `overloads`."""

    def __init__(self, text):
        self.text = text
        src = strip_comments(text)
        self.imports = {}       # identifier -> module specifier
        for m in _IMPORT_NAMED.finditer(src):
            for part in m.group(1).split(","):
                name = part.strip()
                if name.startswith("type "):
                    name = name[5:].strip()
                if " as " in name:
                    name = name.split(" as ")[1].strip()
                if name:
                    self.imports[name] = m.group(2)
        for m in _IMPORT_DEFAULT.finditer(src):
            self.imports[m.group(1)] = m.group(2)
        self.ws_chars = None
        self.model = None
        self.model_problems = []
        self._read_definitions(src)
        self.overloads = []
        self._read_overloads(src)

    def _read_definitions(self, src):
        m = re.search(r"type\s+WhitespaceCharacter\s*=([^;]*);", src)
        if not m:
            self.model_problems.append("no WhitespaceCharacter definition")
            return
        try:
            t = parse_type(m.group(1))
        except TsParseError as e:
            self.model_problems.append(f"WhitespaceCharacter: {e}")
            return
        members = t["types"] if t["k"] == "union" else [t]
        if not all(x["k"] == "lit" and len(x["value"]) == 1 for x in members):
            self.model_problems.append("WhitespaceCharacter is not a union of one-character string literals")
            return
        self.ws_chars = [x["value"] for x in members]
        m = re.search(r"type\s+Whitespace<In>\s*=(.*?);", src, re.S)
        want_ws = _norm("In extends `${WhitespaceCharacter}${infer In}` ? Whitespace<In> : In")
        if not m or _norm(m.group(1)) != want_ws:
            self.model_problems.append("Whitespace<In> is not the modelled recursive strip of one leading WhitespaceCharacter")
            return
        m = re.search(r"type\s+MatchesWhitespaceAndString<\s*TString extends string,\s*T\s*>\s*=(.*?);", src, re.S)
        want_m = _norm("Whitespace<T> extends `${TString}${string}` ? T : never")
        if not m or _norm(m.group(1)) != want_m:
            self.model_problems.append("MatchesWhitespaceAndString is not `Whitespace<T> extends `${TString}${string}` ? T : never`")
            return
        self.model = "strip-leading-then-prefix"

    def _read_overloads(self, src):
        # declarations `export function iso<T>(param: P): R;` (signatures without a body)
        for m in re.finditer(r"export\s+function\s+iso\s*(<[^>]*>)?\s*\(", src):
            toks = tokenize(src[m.end() - 1:])
            p = _P(toks)
            try:
                p.eat("p", "(")
                p.eat("id")
                p.eat("p", ":")
                ptype = p.type()
                if p.at("p", ","):
                    p.i += 1
                p.eat("p", ")")
                p.eat("p", ":")
                rtype = p.type()
            except TsParseError as e:
                self.model_problems.append(f"overload #{len(self.overloads)}: {e}")
                continue
            has_body = p.at("p", "{")
            if has_body or m.group(1) is None:
                continue            # implementation signature: not visible to overload resolution
            pattern = None
            parts = ptype["types"] if ptype["k"] == "inter" else [ptype]
            for x in parts:
                if x["k"] == "ref" and x["name"] == "MatchesWhitespaceAndString" and len(x["args"]) == 2 and x["args"][0]["k"] == "lit":
                    pattern = x["args"][0]["value"]
            if pattern is None:
                self.model_problems.append(f"overload #{len(self.overloads)}: parameter type is not T & MatchesWhitespaceAndString<'...', T>")
                continue
            ids = idents_in(rtype)
            target = None
            for name in ids:
                spec = self.imports.get(name)
                if spec is None:
                    continue
                mm = _TARGET_PARAM.match(spec)
                if mm and name.endswith("__param"):
                    target = ("param", mm.group(1), mm.group(2))
                    break
                mm = _TARGET_EP.match(spec)
                if mm and name.startswith("entrypoint_"):
                    target = ("entrypoint", mm.group(1), mm.group(2))
                    break
            if target is None:      # fall back on the identifier spelling
                for name in ids:
                    mm = re.match(r"^entrypoint_(.+?)__(.+)$", name)
                    if mm:
                        target = ("entrypoint-by-name", name, None)
                    elif name.endswith("__param"):
                        target = ("param-by-name", name, None)
            rshape = rtype["name"] if rtype["k"] == "ref" else rtype["k"]
            self.overloads.append({"index": len(self.overloads), "pattern": pattern, "return_idents": ids, "target": target,
                                   "return_shape": rshape})

    # -- the matching semantics the file defines ---------------------------------
    def strip_ws(self, s):
        i = 0
        ws = set(self.ws_chars)
        while i < len(s) and s[i] in ws:
            i += 1
        return s[i:]

    def matches(self, overload, cooked_text):
        return self.strip_ws(cooked_text).startswith(overload["pattern"])

    def first_match(self, cooked_text):
        st = self.strip_ws(cooked_text)
        for o in self.overloads:
            if st.startswith(o["pattern"]):
                return o
        return None


def overload_is_for(o, kind, parent, name):
    """kind: field | pointer | entrypoint."""
    t = o["target"]
    if t is None:
        return False
    if t[0] == "param":
        return kind in ("field", "pointer") and (t[1], t[2]) == (parent, name)
    if t[0] == "entrypoint":
        return kind == "entrypoint" and (t[1], t[2]) == (parent, name)
    if t[0] == "param-by-name":
        return kind in ("field", "pointer") and t[1] == f"{parent}__{name}__param"
    if t[0] == "entrypoint-by-name":
        return kind == "entrypoint" and t[1] == f"entrypoint_{parent}__{name}"
    return False


# ---------------------------------------------------------------------------
# iso literals in source files (the compiler's own extraction regex) and their headers
# ---------------------------------------------------------------------------
EXTRACT_ISO_LITERAL = re.compile(r"(// )?(export const ([^ ]+) =\s+)?iso(\()?\s*`([^`]+)`,?\s*(\))?(\()?")
ISO_WS = " \t\r\n\f\ufeff"                      # what the iso lexer skips (token_kind.rs)
_HEADER = re.compile(r"^([" + ISO_WS + r"]*)(field|pointer|entrypoint)([" + ISO_WS + r"]*)([A-Za-z_][A-Za-z0-9_]*)"
                     r"([" + ISO_WS + r"]*)\.([" + ISO_WS + r"]*)([A-Za-z_][A-Za-z0-9_]*)")
_POINTER_TO = re.compile(r"^[^{@]*?\bto[" + ISO_WS + r"]+([\[\]!A-Za-z0-9_" + ISO_WS + r"]+)")
SOURCE_EXT = (".ts", ".tsx", ".js", ".jsx")


def cook_template(raw):
    """String value TypeScript gives a no-substitution template literal: CRLF / CR -> LF; None when the literal
    contains an escape or a substitution (not modelled)."""
    if "\\" in raw or "${" in raw:
        return None
    return raw.replace("\r\n", "\n").replace("\r", "\n")


def gap_kind(gap):
    if gap == " ":
        return "single-space"
    if gap == "":
        return "none"
    if "\r\n" in gap:
        return "crlf"
    if "\n" in gap:
        return "newline"
    if "\t" in gap:
        return "tab"
    if "\f" in gap:
        return "formfeed"
    if "\r" in gap:
        return "cr"
    if "\ufeff" in gap:
        return "bom"
    return "several-spaces"


def header_of(raw):
    """-> dict(kind,parent,name,leading,gap,dot_before,dot_after,ws_kind) or None (not a declaration header)."""
    m = _HEADER.match(raw)
    if not m:
        return None
    lead, kw, gap, parent, d1, d2, name = m.groups()
    ws = gap_kind(gap)
    if ws == "single-space" and (d1 or d2):
        ws = "around-dot"
    h = {"kind": kw, "parent": parent, "name": name, "leading": lead, "gap": gap, "dot_ws": d1 + d2, "ws_kind": ws,
         "leading_kind": ("none" if lead == "" else gap_kind(lead) if lead != " " else "single-space")}
    if kw == "pointer":
        mm = _POINTER_TO.match(raw[m.end():])
        h["to"] = re.sub("[" + ISO_WS + "]+", "", mm.group(1)) if mm else None
    return h


def scan_literals(project_root, src_root, artifact_dir):
    """All iso literals of a project, the way the compiler finds them -> [{file, raw, header, commented}]"""
    out = []
    for root, dirs, files in os.walk(src_root):
        dirs[:] = sorted(d for d in dirs if d not in ("node_modules", "__isograph"))
        if os.path.abspath(root).startswith(os.path.abspath(artifact_dir)):
            continue
        for f in sorted(files):
            if not f.endswith(SOURCE_EXT):
                continue
            p = os.path.join(root, f)
            try:
                with open(p, newline="", encoding="utf-8") as fh:
                    text = fh.read()
            except (OSError, UnicodeDecodeError):
                continue
            for m in EXTRACT_ISO_LITERAL.finditer(text):
                if m.group(1) is not None:
                    continue
                raw = m.group(5)
                out.append({"file": os.path.relpath(p, project_root), "raw": raw, "header": header_of(raw)})
    return out


# ---------------------------------------------------------------------------
# E3 glue: project variants + case runner used by C24 and C27 (own pipeline because the variants
# post-process isogen's Project; isogen.py / e3.py themselves are not edited)
# ---------------------------------------------------------------------------
def generate_variant(seed, profile, variant):
    """isogen project + deterministic post-processing selected by `variant` (dict):
       header_ws : extra header whitespace kinds (CRLF, form feed, several spaces, around the dot),
                   CRLF line endings for whole files, leading whitespace before `entrypoint`
       nested_lists : some schema fields get nested list types ([[T]], [[T!]]!, [[T]!])"""
    variant = variant or {}
    opts = dict(variant.get("opts") or {})
    g = NestedListGenerator if variant.get("nested_lists") else isogen.Generator
    presets = {"core": {}, "plain": dict(aliases=False, loadable=False, refetch=False, negative_ints=False),
               "text": dict(hazard_strings=True, hazard_descs=True), "names": dict(prefix_names=True, header_ws=True),
               "keys": dict(hazard_strings=True, aliases=True)}
    o = dict(presets.get(profile, {}))
    o.update(opts)
    gen = g(seed, profile, **o)
    gen.gen_schema()
    gen.gen_program()
    gen.gen_config()
    p = gen.p
    r = random.Random(seed ^ 0xC24C27)
    if variant.get("prefix_dense"):
        _rename_prefix_dense(p, r)
    if variant.get("header_ws"):
        for d in p.decls:
            x = r.random()
            if x < 0.45:
                continue            # keep what isogen chose (single space unless profile names)
            ws0 = r.choice(["\r\n", "\r\n  ", "\f", "   ", " \t", "\n", "\t", " "])
            d.header_ws = (ws0, (d.header_ws or (" ", " "))[1])
        p.tags.add("header-ws")
    p.render_files()
    if variant.get("header_ws"):
        for d in p.decls:
            x = r.random()
            kw = {"field": "field", "pointer": "pointer", "entrypoint": "entrypoint"}[d.kind]
            if x < 0.12:
                pat = re.compile(r"(" + kw + r"[ \t\r\n\f]+" + re.escape(d.parent) + r")\.(" + re.escape(d.name) + r")(?![A-Za-z0-9_])")
                rep = r.choice([r"\1 .\2", r"\1. \2", r"\1 . \2"])
                p.files[d.file] = pat.sub(rep, p.files[d.file], count=1)
            if d.kind == "entrypoint" and r.random() < 0.3:
                p.files[d.file] = p.files[d.file].replace("iso(`entrypoint", "iso(`" + r.choice(["\n\t ", "\t", "\n\n  ", " "]) + "entrypoint", 1)
        for f in sorted(p.files):
            if r.random() < 0.25:
                p.files[f] = p.files[f].replace("\r\n", "\n").replace("\n", "\r\n")
                p.tags.add("crlf-file")
    return p


PREFIX_CHAIN = ["Foo", "FooBar", "Foo_", "FooBarBaz", "F", "Fo", "FooB", "Foo_1", "FooBar_", "Foo1", "Foo10"]


def _rename_prefix_dense(p, r):
    """Client fields of one parent type get names from PREFIX_CHAIN (prefixes of one another); selections of those
    client fields and the entrypoints naming them follow."""
    by_parent = {}
    for d in p.decls:
        if d.kind != "entrypoint":
            by_parent.setdefault(d.parent, []).append(d)
    renames = {}
    for parent, ds in sorted(by_parent.items()):
        taken = set(p.schema.types[parent]["fields"])
        names = [n for n in PREFIX_CHAIN if n not in taken]
        r.shuffle(names)
        for d, n in zip(ds, names):
            renames[(d.parent, d.name)] = n

    def walk(sels):
        for s in sels or []:
            if s.kind in ("client", "pointer") and s.target:
                tp, tn = s.target.split(".", 1)
                if (tp, tn) in renames:
                    s.name = renames[(tp, tn)]
                    s.target = f"{tp}.{s.name}"
            walk(s.sels)
    for d in p.decls:
        walk(d.sels)
    for d in p.decls:
        new = renames.get((d.parent, d.name))
        if new is not None:
            d.name = new
            if d.kind != "entrypoint":
                d.export_name = new
    p.tags.add("prefix-dense")


class NestedListGenerator(isogen.Generator):
    """isogen's generator with some nested list field types ([[T]], [[T!]]!, [[T]!], ...)."""

    def wrap(self, t, leaf):
        base = super().wrap(t, leaf)
        if self.rng.random() < 0.2:
            inner = self.rng.choice([isogen.lst(t), isogen.lst(isogen.nn(t)), isogen.nn(isogen.lst(t)),
                                     isogen.nn(isogen.lst(isogen.nn(t)))])
            outer = isogen.lst(inner)
            return isogen.nn(outer) if self.rng.random() < 0.4 else outer
        return base


def _process(spec):
    import importlib

    import cli_common as cc
    import e3
    import runner
    try:
        if spec["kind"] == "generated":
            p = generate_variant(spec["seed"], spec["profile"], spec.get("variant"))
            shutil.rmtree(spec["root"], ignore_errors=True)
            p.write(spec["root"])
            # Project.write opens files in text mode: line endings chosen above are written verbatim (newline='')
            for rel, text in p.files.items():
                path = os.path.join(spec["root"], p.config["project_root"], rel)
                with open(path, "w", newline="", encoding="utf-8") as f:
                    f.write(text)
            c = e3.Case(f"{spec['profile']}:{spec['seed']}", "generated", spec["root"], p)
        else:
            proj = [x for x in cc.checked_in_projects() if x["name"] == spec["name"]][0]
            cc.copy_checked_in(proj, spec["root"])
            c = e3.Case("checked-in:" + spec["name"], "checked-in", spec["root"])
        c.variant = spec.get("variant")
        c.result = cc.run_cli_timed(spec["cli"], c.root)
        if spec.get("probe") and c.result.ok():
            c.model = cc.probe_dump(c.artifact_dir(), os.path.join(c.root, ".model.json"))
            os.remove(os.path.join(c.root, ".model.json"))
        c.schema_texts = e3.schema_texts_of(c.root)
        out = {"cid": c.cid, "describe": c.describe(), "ok": c.result.ok(), "rc": c.result.rc, "results": {}, "error": None}
        try:
            crash = e3.crash_violation(c, c.result)
        except runner.Inconclusive as e:
            crash = None
            out["error"] = str(e)
        out["crashed"] = crash["signature"] if crash else None
        if not c.result.ok():
            out["stderr_head"] = cc.ANSI.sub("", c.result.stderr)[:300]
        for mod, fn in spec["analyzers"]:
            f = getattr(importlib.import_module(mod), fn)
            out["results"][f"{mod}.{fn}"] = f(c, spec)
        return out
    except runner.Inconclusive as e:
        return {"cid": spec.get("seed") or spec.get("name"), "error": str(e), "results": {}, "ok": False, "crashed": None}
    finally:
        if not spec.get("keep"):
            shutil.rmtree(spec["root"], ignore_errors=True)


def replay_of(c):
    if c.project is None:
        return {"checked_in": c.cid}
    return {"generator": "pylib/ts_types.py generate_variant", "profile": c.project.profile, "seed": c.project.seed,
            "variant": getattr(c, "variant", None),
            "how": "python3 -c \"import sys;sys.path.insert(0,'/verif/pylib');import ts_types;"
                   f"ts_types.write_variant({c.project.seed},'{c.project.profile}',{getattr(c, 'variant', None)!r},'/var/tmp/case')\""
                   " && cd /var/tmp/case && isograph_cli --config isograph.config.json"}


def write_variant(seed, profile, variant, root):
    p = generate_variant(seed, profile, variant)
    shutil.rmtree(root, ignore_errors=True)
    p.write(root)
    for rel, text in p.files.items():
        with open(os.path.join(root, p.config["project_root"], rel), "w", newline="", encoding="utf-8") as f:
            f.write(text)
    return p


def run_cases(ctx, cli, plan, label, analyzers, with_checked_in=True, probe=False):
    """plan: [(profile, variant dict | None, n)].  Returns the per-case dicts."""
    from concurrent.futures import ProcessPoolExecutor

    import cli_common as cc
    import runner
    specs = []
    if with_checked_in:
        for proj in cc.checked_in_projects():
            specs.append({"kind": "checked-in", "name": proj["name"], "root": os.path.join(ctx.work, f"{label}-ci-{proj['name']}"),
                          "cli": cli, "analyzers": analyzers, "probe": probe})
    for gi, (prof, variant, n) in enumerate(plan):
        for i in range(n):
            seed = runner.subseed(ctx.seed, label, prof, gi, i) % (1 << 48)
            specs.append({"kind": "generated", "profile": prof, "seed": seed, "variant": variant,
                          "root": os.path.join(ctx.work, f"{label}-{gi}-{prof}-{i}"), "cli": cli, "analyzers": analyzers,
                          "probe": probe})
    with ProcessPoolExecutor(max_workers=runner.NCPU) as ex:
        results = list(ex.map(_process, specs, chunksize=1))
    errs = [r["error"] for r in results if r.get("error")]
    if errs and len(errs) > max(2, len(results) // 20):
        raise runner.Inconclusive(f"{len(errs)} cases inconclusive, e.g. {errs[0]}")
    return results
