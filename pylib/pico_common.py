"""Engine E1 driver: runs harness/pico_mon (native, Miri, ASan, valgrind) and
turns its reports into per-property verdicts for C01-C04."""
import json
import os
import re
import subprocess
import time

import runner
from runner import HARNESS, Inconclusive, NCPU, subseed

PKG = "pico_mon"


def _parse_report(stdout):
    for line in reversed(stdout.strip().splitlines()):
        line = line.strip()
        if line.startswith("{") and '"histories"' in line:
            return json.loads(line)
    return None


def _merge(total, rep):
    for k in ("histories", "nontrivial_c01", "nontrivial_c02", "nontrivial_c03",
              "nontrivial_c04", "distinct_histories", "panics"):
        total[k] = total.get(k, 0) + rep.get(k, 0)
    st = total.setdefault("stats", {})
    for k, v in rep.get("stats", {}).items():
        st[k] = st.get(k, 0) + v
    total.setdefault("findings", []).extend(rep.get("findings", []))
    total.setdefault("samples", []).extend(rep.get("samples", []))
    total.setdefault("memo_identity_conflicts", [])
    for c in rep.get("memo_identity_conflicts", []):
        if c not in total["memo_identity_conflicts"]:
            total["memo_identity_conflicts"].append(c)
    total["memo_identities"] = max(total.get("memo_identities", 0), rep.get("memo_identities", 0))


def native_shard(binary, seed, count, maxops, profile, samples, workdir, tag, env=None, extra=(), max_crashes=50):
    """One process; restarts after a fatal signal, recording the history that died.
    `binary` may be a list (tool prefix + binary, e.g. valgrind)."""
    total, crashes = {}, []
    start = 0
    while start < count:
        prog = os.path.join(workdir, f"progress-{tag}.txt")
        cmd = (list(binary) if isinstance(binary, (list, tuple)) else [binary]) + [
               "run", "--seed", str(seed), "--count", str(count), "--start", str(start),
               "--maxops", str(maxops), "--profile", profile, "--samples", str(samples),
               "--progress", prog] + list(extra)
        try:
            e = dict(os.environ)
            e.update(env or {})
            r = subprocess.run(cmd, stdout=subprocess.PIPE, stderr=subprocess.PIPE, timeout=3600, env=e)
        except subprocess.TimeoutExpired:
            raise Inconclusive(f"pico_mon watchdog fired (seed {seed})")
        rep = _parse_report(r.stdout.decode(errors="replace"))
        if r.returncode == 0 and rep is not None:
            _merge(total, rep)
            break
        # died: which history?
        try:
            lines = open(prog).read().split()
        except OSError:
            lines = []
        died_at = start + max(len(lines) - 1, 0)
        hseed = int(lines[-1]) if lines else None
        crashes.append({"history_seed": hseed, "index": died_at, "returncode": r.returncode,
                        "stderr_tail": r.stderr.decode(errors="replace")[-600:],
                        "stderr_head": r.stderr.decode(errors="replace")[:3000]})
        if len(crashes) > max_crashes:
            raise Inconclusive("pico_mon keeps dying")
        start = died_at + 1
    total["crashes"] = crashes
    return total


def run_native(ctx, profile, histories, maxops=40, samples=1):
    bindir = runner.cargo_build([PKG])
    binary = os.path.join(bindir, PKG)
    shards = NCPU
    per = max(1, histories // shards)
    jobs = [(subseed(ctx.seed, "pico", profile, i), i) for i in range(shards)]

    def one(job):
        s, i = job
        return native_shard(binary, s, per, maxops, profile, samples if i == 0 else 0, ctx.work, f"{profile}-{i}")

    total = {}
    for rep in runner.run_shards(jobs, one):
        crashes = rep.pop("crashes", [])
        _merge(total, rep)
        total.setdefault("crashes", []).extend(crashes)
    return total


MIRI_ENV = {"RUSTFLAGS": f"--cfg {runner.GUARD}", "MIRIFLAGS": ""}


def _miri_build():
    runner.sync_lock()
    rc, out, err = runner.sh(["cargo", "+nightly", "miri", "run", "--offline", "-p", PKG, "--", "noop"],
                             cwd=HARNESS, env=MIRI_ENV, timeout=3600)
    if "usage: pico_mon" not in err and "usage: pico_mon" not in out:
        raise Inconclusive("miri build/run of pico_mon failed: " + err[-800:])


def _native_signatures(binary, hseed, maxops, profile):
    r = subprocess.run([binary, "run", "--seed", "0", "--count", "1", "--only-hseed", str(hseed),
                        "--maxops", str(maxops), "--profile", profile, "--samples", "0", "--quarantine"],
                       stdout=subprocess.PIPE, stderr=subprocess.PIPE, timeout=600)
    rep = _parse_report(r.stdout.decode(errors="replace"))
    if rep is None:
        return None
    return sorted({f["signature"] for f in rep["findings"]})


def miri_shard(seed, count, maxops, profile, native_binary):
    """Runs `count` histories under Miri; after an UB report the same history is
    classified by the native monitor and the run resumes after it."""
    total, reports = {}, []
    start = 0
    t0 = time.time()
    while start < count:
        cmd = ["cargo", "+nightly", "miri", "run", "--offline", "-q", "-p", PKG, "--", "run",
               "--seed", str(seed), "--count", str(count), "--start", str(start),
               "--maxops", str(maxops), "--profile", profile, "--samples", "0",
               "--no-shrink", "--announce"]
        rc, out, err = runner.sh(cmd, cwd=HARNESS, env=MIRI_ENV, timeout=7200)
        rep = _parse_report(out)
        if rc == 0 and rep is not None:
            _merge(total, rep)
            break
        ann = [l.split() for l in out.splitlines() if l.startswith("#H ")]
        if not ann:
            raise Inconclusive("miri run died before the first history: " + err[-800:])
        idx, hseed = int(ann[-1][1]), int(ann[-1][2])
        m = re.search(r"error: (Undefined Behavior|[^\n]*leak[^\n]*|[^\n]*data race[^\n]*)[^\n]*", err)
        headline = m.group(0) if m else "miri failure"
        frames = re.findall(r"\d+: ([^\n]+)\n\s+at ([^\n]+)", err)
        first_repo = next((f"{fn.strip()}" for fn, at in frames if at.strip().startswith(runner.REPO_PREFIX)), "?")
        reports.append({"history_seed": hseed, "index": idx, "headline": headline[:300],
                        "first_repo_frame": first_repo,
                        "native_signatures": _native_signatures(native_binary, hseed, maxops, profile)})
        total["histories"] = total.get("histories", 0) + (idx - start + 1)
        start = idx + 1
        if len(reports) > 200 or time.time() - t0 > 7000:
            break
    total["miri_reports"] = reports
    return total


def run_miri(ctx, profile, shards, per_shard, maxops=25):
    bindir = runner.cargo_build([PKG])
    native_binary = os.path.join(bindir, PKG)
    _miri_build()
    jobs = [subseed(ctx.seed, "pico-miri", profile, i) for i in range(shards)]
    total = {"miri_reports": []}
    for rep in runner.run_shards(jobs, lambda s: miri_shard(s, per_shard, maxops, profile, native_binary)):
        total["miri_reports"].extend(rep.pop("miri_reports", []))
        _merge(total, rep)
    return total


def violations_for(pid, rep):
    """pico_mon findings of this property -> runner violations (deduped by signature there)."""
    out = []
    for f in rep.get("findings", []):
        if f["property"] != pid:
            continue
        out.append({"rule": f["rule"], "signature": f["signature"],
                    "what": f["detail"][:300],
                    "witness": {"history_seed": f["history_seed"], "lru_capacity": f["cap"],
                                "shrunk_ops": f["shrunk_ops"], "original_len": f["original_len"],
                                "replay": "harness/target/verif/pico_mon exec --cap <cap> --ops '<shrunk_ops json>'"}})
    return out


def crash_violations(pid, rep):
    out = []
    for c in rep.get("crashes", []):
        out.append({"rule": "fatal-signal", "signature": f"{pid}/native-crash/rc={c['returncode']}",
                    "what": f"pico_mon died (rc {c['returncode']}) in history seed {c['history_seed']}: {c['stderr_tail'][-200:]}",
                    "witness": c})
    return out


def miri_violations(rep, known_sigs):
    """A Miri report is the known finding iff the native monitor classifies the same
    history with (only) known signatures; otherwise it is a new violation."""
    out = []
    for r in rep.get("miri_reports", []):
        ns = r.get("native_signatures")
        c03 = [s for s in (ns or []) if s.startswith("C03/")]
        if c03 and all(s in known_sigs for s in c03) and "Undefined Behavior" in r["headline"] \
                and "RawPtr" in r["first_repo_frame"]:
            for s in c03:
                out.append({"rule": "miri-ub", "signature": s,
                            "what": f"Miri: {r['headline'][:160]} at {r['first_repo_frame']} (history {r['history_seed']})",
                            "witness": r})
        else:
            kind = re.sub(r"[^A-Za-z ]", "", r["headline"])[:60].strip().replace(" ", "-")
            out.append({"rule": "miri-ub", "signature": f"C03/miri/{kind}@{r['first_repo_frame']}",
                        "what": f"Miri: {r['headline'][:200]} (history {r['history_seed']}); native monitor said {ns}",
                        "witness": r})
    return out


def stats_subset(rep, keys):
    st = rep.get("stats", {})
    return {k: st.get(k, 0) for k in keys}
