"""./check --setup : build everything the quick checks need, from files on disk only."""
import os
import sys
import runner


def main():
    ok = True
    try:
        pkgs = [d for d in sorted(os.listdir(runner.HARNESS))
                if os.path.exists(os.path.join(runner.HARNESS, d, "Cargo.toml")) and d not in SLOW]
        runner.cargo_build(pkgs)
        print("built harness packages:", pkgs)
    except runner.Inconclusive as e:
        print("setup: harness build failed:", e)
        ok = False
    try:
        print("built", runner.build_cli())
    except runner.Inconclusive as e:
        print("setup: cli build failed:", e)
        ok = False
    try:
        import pico_common
        pico_common._miri_build()
        print("miri build ok")
    except Exception as e:  # noqa
        print("setup: miri warm-up failed (checks will retry):", e)
    if not os.path.exists(runner.NODE):
        print("setup: WARNING node 22 not found at", runner.NODE)
    return 0 if ok else 1


SLOW = set()

if __name__ == "__main__":
    sys.exit(main())
