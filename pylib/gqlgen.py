"""Seeded generators for C29 / C30.

AST-first ("by construction" oracle): every generator function returns the expected tree (gqlref AST
shape, without `raw`) together with the token lexemes it chose for it; `render` joins the tokens with
random insignificant text (spaces, tabs, LF / CR / CRLF, commas, comments, BOM, or nothing where two
tokens cannot merge).  No parser is involved in producing the expected tree.

Also: token-level mutations (delete / insert / swap / duplicate / replace) and lexical edge-case
snippets; these are judged by gqlref, not by construction.
"""
import random

KEYWORDS = ["on", "type", "query", "mutation", "subscription", "fragment", "schema", "scalar", "interface", "union",
            "enum", "input", "directive", "extend", "implements", "repeatable", "true", "false", "null"]
PLAIN_NAMES = ["a", "b", "c", "id", "name", "node", "User", "Query", "T", "U", "I", "E", "x1", "_", "__t", "_9",
               "Foo_Bar", "aVeryLongFieldName_0123456789", "Z", "k", "v", "if", "first"]
EXEC_LOCS = ["QUERY", "MUTATION", "SUBSCRIPTION", "FIELD", "FRAGMENT_DEFINITION", "FRAGMENT_SPREAD", "INLINE_FRAGMENT"]
TS_LOCS = ["SCHEMA", "SCALAR", "OBJECT", "FIELD_DEFINITION", "ARGUMENT_DEFINITION", "INTERFACE", "UNION", "ENUM",
           "ENUM_VALUE", "INPUT_OBJECT", "INPUT_FIELD_DEFINITION"]
PUNCT = ["!", "$", "(", ")", "...", ":", "=", "@", "[", "]", "{", "|", "}", "&"]

# characters a string value may contain (cooked); escapes / raw spelling are chosen per character
STR_CHARS = list("abcXYZ019 _-#,:{}()[]!$@&|='./") + ['"', "\\", "\n", "\r", "\t", "\b", "\f", "/", "\u00e9", "\u4e2d",
                                                     "\ufeff", "\uffff", "\u0001", "\u007f", "\u2028"]
_SIMPLE_ESC = {'"': '\\"', "\\": "\\\\", "/": "\\/", "\b": "\\b", "\f": "\\f", "\n": "\\n", "\r": "\\r", "\t": "\\t"}


def _is_source_char(c):
    o = ord(c)
    return o in (9, 10, 13) or 0x20 <= o <= 0xFFFF


class Gen(object):
    """profile: 'exec' | 'schema' (everything in June 2018) | 'iso-base' | 'iso-ext' (isograph's subset)."""

    def __init__(self, seed, profile):
        self.r = random.Random(seed)
        self.profile = profile
        self.feat = set()      # features used by the current document (for coverage accounting)

    # -- names -------------------------------------------------------------------------------
    def name(self, allow=("true", "false", "null", "on")):
        r = self.r
        if r.random() < 0.15:
            n = r.choice(KEYWORDS)
            if n in ("true", "false", "null", "on") and n not in allow:
                return r.choice(PLAIN_NAMES)
            self.feat.add("keyword-as-name")
            return n
        return r.choice(PLAIN_NAMES)

    # -- values ------------------------------------------------------------------------------
    def int_lexeme(self):
        r = self.r
        x = r.random()
        if x < 0.5:
            return str(r.randint(0, 20))
        if x < 0.7:
            return "-" + str(r.randint(0, 999))
        if x < 0.8:
            self.feat.add("int-edge")
            return r.choice(["-0", "0", "2147483647", "-2147483648", "9223372036854775807", "-9223372036854775808"])
        if x < 0.83:
            self.feat.add("int-beyond-i64")
            return r.choice(["9223372036854775808", "-9223372036854775809", "123456789012345678901234567890"])
        return str(r.randint(0, 10 ** r.randint(1, 15)))

    def float_lexeme(self):
        r = self.r
        ip = r.choice(["0", "-0", "1", "-1", "12", "-305", str(r.randint(0, 99999))])
        frac = "." + "".join(r.choice("0123456789") for _ in range(r.randint(1, 6)))
        exp = r.choice("eE") + r.choice(["", "+", "-"]) + str(r.randint(0, 400)).zfill(r.choice([1, 1, 2, 3]))
        form = r.randint(0, 2)
        if form == 0:
            return ip + frac
        if form == 1:
            self.feat.add("float-exp")
            return ip + exp
        self.feat.add("float-exp")
        return ip + frac + exp

    def quoted_string(self):
        """-> (cooked value, lexeme)"""
        r = self.r
        n = r.choice([0, 1, 1, 2, 3, 5, 8, 13])
        cooked, lex = [], ['"']
        for _ in range(n):
            c = r.choice(STR_CHARS) if r.random() < 0.45 else r.choice("abcdefgh xyz")
            cooked.append(c)
            raw_ok = _is_source_char(c) and c not in '"\\\n\r'
            x = r.random()
            if raw_ok and x < 0.8:
                lex.append(c)
            elif c in _SIMPLE_ESC and (x < 0.9 or not raw_ok) and r.random() < 0.75:
                self.feat.add("string-escape")
                lex.append(_SIMPLE_ESC[c])
            else:
                self.feat.add("string-unicode-escape")
                h = "%04x" % ord(c)
                lex.append("\\u" + (h.upper() if r.random() < 0.5 else h))
        lex.append('"')
        return "".join(cooked), "".join(lex)

    def block_string(self):
        """Forward construction of a block string with a known value -> (cooked value, lexeme).
        The value lines are chosen first; then a layout (first value line on the opening line or not,
        a common indentation, blank lines before / after, LF / CR / CRLF) is wrapped around them such that
        the specification's BlockStringValue must give the value back:
          * first and last value line are not blank;
          * among the value lines that take part in the common-indent computation (all raw lines but the
            first) one starts at column 0, so the common indent is exactly the indentation added here;
          * an empty value line may be written as any run of white space not longer than the indent."""
        r = self.r
        self.feat.add("block-string")

        def content():
            n = r.choice([1, 1, 2, 3, 6])
            # incl. Unicode spaces, which are NOT WhiteSpace for the specification's BlockStringValue (only tab and space)
            s = "".join(r.choice('abc xyz\t"\\#,\u00e9{}:\u00a0\u3000\u2003') for _ in range(n))
            s = s.replace('""', '"x')
            if not s.strip(" \t"):
                s += "w"
            if '"' in s:
                self.feat.add("block-string-quote")
            return s
        if r.random() < 0.1:
            value_lines = []
        else:
            k = r.choice([1, 1, 2, 3, 4])
            value_lines = []
            for i in range(k):
                if 0 < i < k - 1 and r.random() < 0.3:
                    value_lines.append(r.choice(["", "", " ", "\t ", "   "]))       # blank line inside
                else:
                    value_lines.append(content())
        raw_lines_of_value = list(value_lines)
        if value_lines and r.random() < 0.15:
            self.feat.add("block-string-escaped-triple-quote")
            i = r.choice([j for j, l in enumerate(value_lines) if l.strip(" \t")])
            value_lines[i] = value_lines[i] + 'q"""r'
            raw_lines_of_value[i] = raw_lines_of_value[i] + 'q\\"""r'
        inline_first = bool(value_lines) and r.random() < 0.4
        first_counted = 1 if inline_first else 0
        counted = [j for j in range(first_counted, len(value_lines)) if value_lines[j].strip(" \t")]
        if counted and all(value_lines[j][0] in " \t" for j in counted):
            j = r.choice(counted)
            value_lines[j] = value_lines[j].lstrip(" \t")
            raw_lines_of_value[j] = raw_lines_of_value[j].lstrip(" \t")
        indent = "".join(r.choice(" \t") for _ in range(r.choice([0, 0, 1, 2, 4, 7])))
        if indent and len(value_lines) > first_counted:
            self.feat.add("block-string-indent")

        def blank():
            return "".join(r.choice(" \t") for _ in range(r.choice([0, 0, 1, 3, 9])))
        raw = []
        if not inline_first:
            raw.append(blank())
            for _ in range(r.choice([0, 0, 1, 2])):
                raw.append(blank())
        for j, l in enumerate(raw_lines_of_value):
            if j == 0 and inline_first:
                raw.append(l)
            elif l == "":
                raw.append(indent[:r.randint(0, len(indent))])
            else:
                raw.append(indent + l)
        for _ in range(r.choice([0, 0, 1, 2])):
            raw.append(blank())
        if raw[-1].endswith('"') or raw[-1].endswith("\\"):
            raw.append(blank())
        out = [raw[0]]
        prev_sep = None
        for i in range(1, len(raw)):
            choices = ["\n", "\n", "\n", "\r\n", "\r"]
            if prev_sep == "\r" and raw[i - 1] == "":
                choices = ["\r", "\r\n"]      # "\r" + "" + "\n" would read as one CRLF
            sep = r.choice(choices)
            if sep != "\n":
                self.feat.add("block-string-cr")
            out.append(sep)
            out.append(raw[i])
            prev_sep = sep
        return "\n".join(value_lines), '"""' + "".join(out) + '"""'

    def string_value(self, block_ok=True):
        if block_ok and self.r.random() < 0.3:
            v, lex = self.block_string()
            return {"kind": "StringValue", "value": v, "block": True}, lex
        v, lex = self.quoted_string()
        return {"kind": "StringValue", "value": v, "block": False}, lex

    def value(self, const, depth=0, block_ok=True):
        """-> (ast, [tokens])"""
        r = self.r
        x = r.random()
        if depth < 3 and x < 0.12:
            self.feat.add("list-value")
            vals, toks = [], ["["]
            for _ in range(r.choice([0, 1, 2, 3])):
                v, t = self.value(const, depth + 1, block_ok)
                vals.append(v)
                toks += t
            return {"kind": "ListValue", "values": vals}, toks + ["]"]
        if depth < 3 and x < 0.24:
            self.feat.add("object-value")
            fields, toks = [], ["{"]
            for _ in range(r.choice([0, 1, 2, 3])):
                n = self.name()
                v, t = self.value(const, depth + 1, block_ok)
                fields.append({"name": n, "value": v})
                toks += [n, ":"] + t
            return {"kind": "ObjectValue", "fields": fields}, toks + ["}"]
        if not const and x < 0.38:
            n = self.name()
            return {"kind": "Variable", "name": n}, ["$", n]
        if x < 0.52:
            lx = self.int_lexeme()
            return {"kind": "IntValue", "value": lx}, [lx]
        if x < 0.62:
            self.feat.add("float-value")
            lx = self.float_lexeme()
            return {"kind": "FloatValue", "value": lx}, [lx]
        if x < 0.80:
            v, lx = self.string_value(block_ok)
            return v, [lx]
        if x < 0.86:
            b = r.random() < 0.5
            return {"kind": "BooleanValue", "value": b}, ["true" if b else "false"]
        if x < 0.91:
            self.feat.add("null-value")
            return {"kind": "NullValue"}, ["null"]
        n = self.name(allow=("on",))
        self.feat.add("enum-value")
        return {"kind": "EnumValue", "value": n}, [n]

    def type_ref(self, depth=0):
        r = self.r
        if depth < 3 and r.random() < 0.3:
            inner, t = self.type_ref(depth + 1)
            node, toks = {"kind": "ListType", "type": inner}, ["["] + t + ["]"]
        else:
            n = self.name()
            node, toks = {"kind": "NamedType", "name": n}, [n]
        if r.random() < 0.3:
            return {"kind": "NonNullType", "type": node}, toks + ["!"]
        return node, toks

    def arguments(self, const, block_ok=True):
        r = self.r
        if r.random() < 0.65:
            return [], []
        args, toks = [], ["("]
        for _ in range(r.choice([1, 1, 2, 3])):
            n = self.name()
            v, t = self.value(const, 0, block_ok)
            args.append({"name": n, "value": v})
            toks += [n, ":"] + t
        return args, toks + [")"]

    def directives(self, const, p=0.25, block_ok=True):
        r = self.r
        dirs, toks = [], []
        while r.random() < p and len(dirs) < 3:
            self.feat.add("directive")
            n = self.name()
            a, t = self.arguments(const, block_ok)
            dirs.append({"name": n, "arguments": a})
            toks += ["@", n] + t
        return dirs, toks

    # -- executable documents ----------------------------------------------------------------
    def selection_set(self, depth):
        r = self.r
        sels, toks = [], ["{"]
        for _ in range(r.choice([1, 1, 2, 3, 4]) if depth < 3 else 1):
            x = r.random()
            if x < 0.7 or depth >= 4:
                alias = None
                t = []
                if r.random() < 0.2:
                    self.feat.add("alias")
                    alias = self.name()
                    t += [alias, ":"]
                n = self.name()
                a, at = self.arguments(False)
                d, dt = self.directives(False)
                ss = None
                st = []
                if depth < 4 and r.random() < 0.3:
                    ss, st = self.selection_set(depth + 1)
                sels.append({"kind": "Field", "alias": alias, "name": n, "arguments": a, "directives": d,
                             "selectionSet": ss})
                toks += t + [n] + at + dt + st
            elif x < 0.85:
                self.feat.add("fragment-spread")
                n = self.name(allow=("true", "false", "null"))
                d, dt = self.directives(False)
                sels.append({"kind": "FragmentSpread", "name": n, "directives": d})
                toks += ["...", n] + dt
            else:
                self.feat.add("inline-fragment")
                tc = None
                t = ["..."]
                if r.random() < 0.7:
                    tc = self.name()
                    t += ["on", tc]
                d, dt = self.directives(False)
                ss, st = self.selection_set(depth + 1)
                sels.append({"kind": "InlineFragment", "typeCondition": tc, "directives": d, "selectionSet": ss})
                toks += t + dt + st
        return sels, toks + ["}"]

    def executable_document(self):
        r = self.r
        defs, toks = [], []
        for _ in range(r.choice([1, 1, 1, 2, 3])):
            x = r.random()
            if x < 0.25:
                self.feat.add("shorthand-query")
                ss, st = self.selection_set(0)
                defs.append({"kind": "OperationDefinition", "operation": "query", "name": None,
                             "variableDefinitions": [], "directives": [], "selectionSet": ss})
                toks += st
            elif x < 0.75:
                op = r.choice(["query", "query", "mutation", "subscription"])
                t = [op]
                name = None
                if r.random() < 0.7:
                    name = self.name()
                    t.append(name)
                vds = []
                if r.random() < 0.5:
                    self.feat.add("variable-definitions")
                    t.append("(")
                    for _ in range(r.choice([1, 1, 2, 3])):
                        vn = self.name()
                        ty, tt = self.type_ref()
                        t += ["$", vn, ":"] + tt
                        dv = None
                        if r.random() < 0.4:
                            self.feat.add("variable-default")
                            dv, vt = self.value(True)
                            t += ["="] + vt
                        vds.append({"kind": "VariableDefinition", "variable": vn, "type": ty, "defaultValue": dv,
                                    "directives": []})
                    t.append(")")
                d, dt = self.directives(False)
                ss, st = self.selection_set(0)
                defs.append({"kind": "OperationDefinition", "operation": op, "name": name,
                             "variableDefinitions": vds, "directives": d, "selectionSet": ss})
                toks += t + dt + st
            else:
                self.feat.add("fragment-definition")
                n = self.name(allow=("true", "false", "null"))
                tc = self.name()
                d, dt = self.directives(False)
                ss, st = self.selection_set(0)
                defs.append({"kind": "FragmentDefinition", "name": n, "typeCondition": tc, "directives": d,
                             "selectionSet": ss})
                toks += ["fragment", n, "on", tc] + dt + st
        return {"kind": "Document", "definitions": defs}, toks

    # -- type system documents ---------------------------------------------------------------
    def description(self, p=0.3):
        if self.r.random() < p:
            self.feat.add("description")
            v, lx = self.string_value()
            return v, [lx]
        return None, []

    def input_value_def(self):
        r = self.r
        desc, toks = self.description(0.2)
        n = self.name()
        ty, tt = self.type_ref()
        toks = toks + [n, ":"] + tt
        dv = None
        if r.random() < 0.4:
            self.feat.add("default-value")
            dv, vt = self.value(True, 0, self.block_values_ok())
            toks += ["="] + vt
        d, dt = self.directives(True, 0.2, self.block_values_ok())
        return {"description": desc, "name": n, "type": ty, "defaultValue": dv, "directives": d}, toks + dt

    def block_values_ok(self):
        return True

    def input_values(self, open_, close, p):
        r = self.r
        if r.random() >= p:
            return [], []
        out, toks = [], [open_]
        for _ in range(r.choice([1, 1, 2, 3])):
            a, t = self.input_value_def()
            out.append(a)
            toks += t
        return out, toks + [close]

    def implements(self, p=0.35):
        r = self.r
        if r.random() >= p:
            return [], []
        self.feat.add("implements")
        toks = ["implements"]
        if r.random() < 0.3:
            self.feat.add("leading-ampersand")
            toks.append("&")
        names = [self.name()]
        toks.append(names[0])
        while r.random() < 0.4 and len(names) < 4:
            n = self.name()
            names.append(n)
            toks += ["&", n]
        return names, toks

    def fields_definition(self, p):
        r = self.r
        if r.random() >= p:
            return [], []
        out, toks = [], ["{"]
        for _ in range(r.choice([1, 1, 2, 3, 4])):
            desc, dt = self.description(0.3)
            n = self.name()
            a, at = self.input_values("(", ")", 0.3)
            if a:
                self.feat.add("field-arguments")
            ty, tt = self.type_ref()
            d, dirt = self.directives(True, 0.2, self.block_values_ok())
            out.append({"description": desc, "name": n, "arguments": a, "type": ty, "directives": d})
            toks += dt + [n] + at + [":"] + tt + dirt
        return out, toks + ["}"]

    def union_members(self, p):
        r = self.r
        if r.random() >= p:
            return [], []
        toks = ["="]
        if r.random() < 0.3:
            self.feat.add("leading-pipe")
            toks.append("|")
        names = [self.name()]
        toks.append(names[0])
        while r.random() < 0.5 and len(names) < 4:
            n = self.name()
            names.append(n)
            toks += ["|", n]
        return names, toks

    def enum_values(self, p):
        r = self.r
        if r.random() >= p:
            return [], []
        out, toks = [], ["{"]
        for _ in range(r.choice([1, 2, 3, 4])):
            desc, dt = self.description(0.25)
            n = self.name(allow=("on",))
            d, dirt = self.directives(True, 0.2, self.block_values_ok())
            out.append({"description": desc, "name": n, "directives": d})
            toks += dt + [n] + dirt
        return out, toks + ["}"]

    def operation_types(self):
        r = self.r
        ops = r.sample(["query", "mutation", "subscription"], r.choice([1, 1, 2, 3]))
        out, toks = [], ["{"]
        for o in ops:
            n = self.name()
            out.append({"operation": o, "type": n})
            toks += [o, ":", n]
        return out, toks + ["}"]

    def type_system_definition(self):
        r = self.r
        iso = self.profile in ("iso-base", "iso-ext")
        kinds = ["scalar", "type", "type", "type", "interface", "union", "enum", "input", "directive", "schema"]
        if self.profile == "schema":
            kinds += ["extend"] * 4
        elif self.profile == "iso-ext":
            kinds += ["extend"] * 3
        kw = r.choice(kinds)
        if kw == "extend":
            return self.type_system_extension()
        self.feat.add("def-" + kw)
        desc, toks = (None, []) if kw == "schema" else self.description(0.35)
        bo = self.block_values_ok()
        if kw == "schema":
            d, dt = self.directives(True, 0.25, bo)
            ops, ot = self.operation_types()
            return {"kind": "SchemaDefinition", "description": None, "directives": d, "operationTypes": ops}, \
                ["schema"] + dt + ot
        if kw == "directive":
            n = self.name()
            a, at = self.input_values("(", ")", 0.4)
            toks += ["directive", "@", n] + at + ["on"]
            if r.random() < 0.3:
                self.feat.add("leading-pipe")
                toks.append("|")
            pool = EXEC_LOCS + [l for l in TS_LOCS if not (iso and False)]
            locs = [r.choice(pool)]
            toks.append(locs[0])
            while r.random() < 0.5 and len(locs) < 5:
                l = r.choice(pool)
                locs.append(l)
                toks += ["|", l]
            return {"kind": "DirectiveDefinition", "description": desc, "name": n, "arguments": a,
                    "repeatable": False, "locations": locs}, toks
        n = self.name()
        if kw == "scalar":
            d, dt = self.directives(True, 0.3, bo)
            return {"kind": "ScalarTypeDefinition", "description": desc, "name": n, "directives": d}, \
                toks + ["scalar", n] + dt
        if kw in ("type", "interface"):
            ifs, it = self.implements() if kw == "type" else ([], [])
            d, dt = self.directives(True, 0.3, bo)
            f, ft = self.fields_definition(0.9)
            if not f:
                self.feat.add("no-fields")
            return {"kind": "ObjectTypeDefinition" if kw == "type" else "InterfaceTypeDefinition",
                    "description": desc, "name": n, "interfaces": ifs, "directives": d, "fields": f}, \
                toks + [kw, n] + it + dt + ft
        if kw == "union":
            d, dt = self.directives(True, 0.3, bo)
            m, mt = self.union_members(0.85)
            if not m:
                self.feat.add("union-without-members")
            return {"kind": "UnionTypeDefinition", "description": desc, "name": n, "directives": d, "types": m}, \
                toks + ["union", n] + dt + mt
        if kw == "enum":
            d, dt = self.directives(True, 0.3, bo)
            v, vt = self.enum_values(0.9)
            return {"kind": "EnumTypeDefinition", "description": desc, "name": n, "directives": d, "values": v}, \
                toks + ["enum", n] + dt + vt
        d, dt = self.directives(True, 0.3, bo)
        f, ft = self.input_values("{", "}", 0.9)
        return {"kind": "InputObjectTypeDefinition", "description": desc, "name": n, "directives": d, "fields": f}, \
            toks + ["input", n] + dt + ft

    def type_system_extension(self):
        r = self.r
        bo = self.block_values_ok()
        kw = "type" if self.profile == "iso-ext" else r.choice(
            ["schema", "scalar", "type", "type", "interface", "union", "enum", "input"])
        self.feat.add("extend-" + kw)
        toks = ["extend", kw]
        if kw == "schema":
            d, dt = self.directives(True, 0.5, bo)
            ops, ot = self.operation_types() if (not d or r.random() < 0.5) else ([], [])
            return {"kind": "SchemaExtension", "directives": d, "operationTypes": ops}, toks + dt + ot
        n = self.name()
        toks.append(n)
        if kw == "scalar":
            d, dt = self.directives(True, 0.3, bo)
            if not d:
                dn = self.name()
                d, dt = [{"name": dn, "arguments": []}], ["@", dn]
            return {"kind": "ScalarTypeExtension", "name": n, "directives": d}, toks + dt
        if kw in ("type", "interface"):
            ifs, it = self.implements(0.3) if kw == "type" else ([], [])
            d, dt = self.directives(True, 0.3, bo)
            f, ft = self.fields_definition(0.7)
            if not ifs and not d and not f:
                f, ft = self.fields_definition(1.1)
            return {"kind": "ObjectTypeExtension" if kw == "type" else "InterfaceTypeExtension", "name": n,
                    "interfaces": ifs, "directives": d, "fields": f}, toks + it + dt + ft
        if kw == "union":
            d, dt = self.directives(True, 0.3, bo)
            m, mt = self.union_members(0.7)
            if not d and not m:
                m, mt = self.union_members(1.1)
            return {"kind": "UnionTypeExtension", "name": n, "directives": d, "types": m}, toks + dt + mt
        if kw == "enum":
            d, dt = self.directives(True, 0.3, bo)
            v, vt = self.enum_values(0.7)
            if not d and not v:
                v, vt = self.enum_values(1.1)
            return {"kind": "EnumTypeExtension", "name": n, "directives": d, "values": v}, toks + dt + vt
        d, dt = self.directives(True, 0.3, bo)
        f, ft = self.input_values("{", "}", 0.7)
        if not d and not f:
            f, ft = self.input_values("{", "}", 1.1)
        return {"kind": "InputObjectTypeExtension", "name": n, "directives": d, "fields": f}, toks + dt + ft

    def schema_document(self):
        r = self.r
        defs, toks = [], []
        for _ in range(r.choice([1, 1, 2, 3, 4])):
            d, t = self.type_system_definition()
            defs.append(d)
            toks += t
        return {"kind": "Document", "definitions": defs}, toks

    def document(self):
        self.feat = set()
        if self.profile == "exec":
            return self.executable_document()
        return self.schema_document()


# -- rendering with insignificant tokens -------------------------------------------------------
_WORDISH = set("abcdefghijklmnopqrstuvwxyzABCDEFGHIJKLMNOPQRSTUVWXYZ0123456789_")


def _can_touch(prev, nxt):
    """may `prev` and `nxt` be written with nothing in between without changing the token stream?"""
    if prev in PUNCT:
        return True
    if nxt in PUNCT:
        # a number directly followed by `...` is not a number token (lookahead restriction)
        if nxt == "..." and (prev[0].isdigit() or prev[0] == "-"):
            return False
        return True
    return False


def render(tokens, r, style=None):
    """Join token lexemes with random ignored text."""
    if style is None:
        style = r.choice(["min", "space", "wild", "wild", "lines", "commas"])
    out = []
    if style == "wild" and r.random() < 0.2:
        out.append("\ufeff")
    prev = None
    for t in tokens:
        if prev is not None:
            touch = _can_touch(prev, t)
            if style == "min":
                sep = "" if touch else " "
            elif style == "space":
                sep = " "
            elif style == "lines":
                sep = r.choice(["\n", "\n  ", " ", "" if touch else " "])
            elif style == "commas":
                sep = r.choice([",", ", ", " ,", ",,", " ", "" if touch else ","])
            else:
                x = r.random()
                if x < 0.25 and touch:
                    sep = ""
                elif x < 0.5:
                    sep = " "
                else:
                    sep = "".join(r.choice([" ", " ", "\t", "\n", "\r\n", "\r", ",", "\ufeff", "# c\u00e9,{\"\n", "#\r",
                                            "#x\r\n"]) for _ in range(r.randint(1, 3)))
            out.append(sep)
        out.append(t)
        prev = t
    if style == "wild":
        out.append(r.choice(["", "\n", " ", "# trailing comment", ",", "\r", "#"]))
    return "".join(out)


# -- mutations -----------------------------------------------------------------------------------
EDGE_TOKENS = ["-0", "1e", ".5", "1.", "-", "01", "0xF", "1.e1", "1_0", "1e+", "-.5", "1.0e", "00", "+1", "1.2.3", "0.0",
               "-0.0e-0", '"\\u00zz"', '"\\u12"', '"\\x"', '"', '"""', '""', '""""""', '"""a\\""""', '"""\\""""""',
               '"a\\"', '"\\', "..", ".", "....", "%", "?", "\\", "~", "^", "<", "'a'", "`", "*", ";",
               '"unterminated', '"""unterminated', '"\\u0041"', '"\\uD83D\\uDE00"', '"tab\there"', "\u00e9", "\u2028"]
INSERT_POOL = PUNCT + PUNCT + KEYWORDS + PLAIN_NAMES[:8] + ["1", "2.5", '"s"', '"""b"""', "$", "@", "on", "extend",
                                                           "implements", "=", "|", "&", "{", "}", "(", ")"]


def mutate(tokens, r):
    """-> (tokens', [what was done])"""
    toks = list(tokens)
    ops = []
    for _ in range(r.choice([1, 1, 1, 2, 3])):
        k = r.choice(["delete", "delete", "insert", "insert", "swap", "dup", "replace", "edge", "edge"])
        if k == "delete" and len(toks) > 1:
            i = r.randrange(len(toks))
            ops.append("delete " + toks[i][:12])
            del toks[i]
        elif k == "insert":
            i = r.randint(0, len(toks))
            t = r.choice(INSERT_POOL)
            ops.append("insert " + t)
            toks.insert(i, t)
        elif k == "swap" and len(toks) > 1:
            i = r.randrange(len(toks) - 1)
            toks[i], toks[i + 1] = toks[i + 1], toks[i]
            ops.append("swap")
        elif k == "dup" and toks:
            i = r.randrange(len(toks))
            toks.insert(i, toks[i])
            ops.append("dup " + toks[i][:12])
        elif k == "replace" and toks:
            i = r.randrange(len(toks))
            t = r.choice(INSERT_POOL)
            ops.append("replace %s -> %s" % (toks[i][:12], t))
            toks[i] = t
        elif k == "edge" and toks:
            t = r.choice(EDGE_TOKENS)
            i = r.randrange(len(toks))
            if r.random() < 0.5:
                ops.append("edge-replace " + t)
                toks[i] = t
            else:
                ops.append("edge-insert " + t)
                toks.insert(i, t)
    return toks, ops


# hand-written lexical / structural edge cases (judged by gqlref)
EXEC_SNIPPETS = ["{a(x:%s)}", "query($v:Int=%s){a}", "{a @d(x:[%s,%s])}", "{a(x:{k:%s})}", "{a(x:%s y:%s)}"]
SCHEMA_SNIPPETS = ["type T{a(x:Int=%s):Int}", "type T @d(x:%s){a:Int}", "input I{a:Int=%s}", "%s type T{a:Int}",
                   "type T{%s a:Int}", "enum E{%s A}", "directive @d(a:Int=%s) on FIELD", "scalar S @d(a:[%s])"]
VALUE_EDGES = EDGE_TOKENS + ["0", "-1", "1e5", "1E-5", "1.5e+3", "9223372036854775807", "9223372036854775808", "1e400",
                             '""', '"a"', '"\\n\\t\\"\\\\\\/\\b\\f\\r"', '"""', '""""""', '"""a"""', '"""\n  a\n   b\n"""',
                             '"""a\\"""b"""', '"""a\rb\r\n  c\n  d"""', '"""\n\n"""', '""" """', '"""\t\ta\n\t b"""',
                             '"""a"b"""', '"""a""b"""', '""""a"""', '"""\u00e9\n \u00e9"""', "true", "false", "null", "E",
                             "on", "$v", "[]", "{}", "[[]]", "{a:{}}", "[1,2,]", "[,]", "{a:1,}", "[1 2]", "{a:1 b:2}"]
STRUCT_EDGES_EXEC = ["", " ", "\ufeff", "#c", ",", "{}", "{a{}}", "{,}", "{a,}", "{,a}", "\ufeff{a}", "{a}\ufeff", "{\ufeffa}",
                     "{a}\r", "{a}\r\n#c\r{b}", "{a #c\r b}", "{a()}", "{a(,)}", "query{}", "query Q(){a}", "query Q($a:Int,){a}",
                     "{...}", "{... on}", "{...on T{}}", "fragment on on T{a}", "fragment F on on{a}", "fragment on T{a}",
                     "{...on}", "{a:b:c}", "{a:}", "{:a}", "query query{query}", "{on{on}}", "subscription{a}",
                     "query Q @d @d{a}", "{a@d}", "{a @d()}", "{a}{b}", "{a} query", "{a(x:1)(y:2)}", "{a{b}{c}}",
                     "query ($a:[Int!]!=[1,2]){a}", "query($a:Int!=1){a}", "query($a:[[Int]]){a}", "query($a:[Int]!){a}",
                     "query($a:Int!!){a}", "query($a:[Int){a}", "query($a:[]){a}", "{a(x:$)}", "{a(x:$ v)}", "{a(x: $v)}"]
STRUCT_EDGES_SCHEMA = ["", '"d"', '"""d"""', "type", "type T", "type T{}", "type T{,}", "type T implements", "type T implements &A",
                       "type T implements &A&B{a:Int}", "type T implements A,B", "type T implements A B{a:Int}", "type T implements &",
                       "type T implements A&{a:Int}", "union U", "union U=", "union U=|", "union U=|A", "union U=A|", "union U=|A|B",
                       "union U @d", "union U @d=A", "enum E", "enum E{}", "enum E{true}", "enum E{null}", "enum E{A,B,}",
                       "input I", "input I{}", "interface I", "interface I{}", "interface I implements J{a:Int}", "scalar S",
                       "schema{}", "schema{query:Q}", "schema{query:Q,query:R}", '"d" schema{query:Q}', "schema @d{query:Q}",
                       "directive @d on FIELD", "directive d on FIELD", "directive @d on |FIELD", "directive @d on FIELD|",
                       "directive @d on FOO", "directive @d repeatable on FIELD", "directive @d on VARIABLE_DEFINITION",
                       "directive @d on SCHEMA", "directive @d() on FIELD", "extend type T", "extend type T{a:Int}", "extend type T @d",
                       "extend type T implements A", '"d" extend type T{a:Int}', "extend schema @d", "extend schema{query:Q}",
                       "extend schema", "extend scalar S", "extend scalar S @d", "extend union U=A", "extend union U",
                       "extend enum E{A}", "extend enum E", "extend input I{a:Int}", "extend input I", "extend interface I{a:Int}",
                       "extend interface I", "extend directive @d on FIELD", "extend", '"a" "b" type T{a:Int}', 'type T{"a" "b" f:Int}',
                       "type T{a:Int=1}", "type T{a():Int}", "type T{a(x:Int):Int}", "type T{a(x:Int=$v):Int}", "type T{a:[Int!]!}",
                       "type T{a:[Int}", "type T{a:Int!!}", "type T{a:!Int}", "type T{a:[]}", "{a}", "query{a}",
                       "type T{a:Int}\ufeff", "\ufefftype T{a:Int}", "type T{a:Int}#c\rtype U{a:Int}", "type T{a:Int,b:Int,}"]

# C30 only: characters outside the June 2018 SourceCharacter set (the statement of C30 does not restrict the
# character set; a panic is never acceptable)
ISO_CHARSET_EDGES = ['"""\U0001F600""" type T{a:Int}', '"\U0001F600" type T{a:Int}', 'type T{"""a\x01b""" a:Int}',
                     'type T{a:Int}#\U0001F600', '"""\x00""" scalar S', 'type T @d(a:"\U0001F600"){a:Int}',
                     'type T{"""\x0c""" a:Int}', '"""\U0001F600']
