"""C20 plumbing: generated projects + edit scripts for `watch_tools sim`, the shard runner that
survives a crashing child, and the real `isograph_cli --watch` sessions (real leg).

A *case* is a template project directory (written with isogen, then re-laid-out into a tree
with sibling folders that share name prefixes) plus an edit script: a list of steps, each step a
list of path-disjoint file-system operations that fall into one debounce window, plus a flag
"run the garbage collector after this recompile".  The Rust tool applies the operations with
real syscalls, synthesises the debounced notify events (shapes: data/event_shapes.json) and
compares the long-lived CompilerState with a fresh one after every step."""
import copy
import json
import os
import random
import shutil
import subprocess
import time

import isogen
import runner
from runner import Inconclusive

HEADER = "import { iso } from '@iso';\n\n"

# folders: siblings sharing prefixes, nesting, a folder that looks like a file, a nested __isograph
DIRS = ["", "a", "ab", "abc", "a/b", "a/bc", "ab/c", "lib", "lib/deep", "a.ts.d", "lib/__isograph"]
SRC_NAMES = ["x.ts", "x.tsx", "y.ts", "z.js", "w.jsx", "x.test.ts", "xy.ts", "x__isograph.ts"]
NONSRC_NAMES = ["notes.md", "data.json", "x.ts.bak", "README", "x.txt", "y.mts"]
BIN_NAMES = ["blob.bin", "image.png", "x.ts.swp"]
BINARY = ["fffe0080c3", "89504e470d0a1a0a00ff", "c328a0a1e2"]


def join(d, n):
    return f"src/{d}/{n}" if d else f"src/{n}"


def is_source_name(p):
    return p.rsplit(".", 1)[-1] in ("ts", "tsx", "js", "jsx") and "__isograph" not in p


class Model:
    """What the script generator believes the tree looks like (the executor skips operations
    that turn out not to apply, so drift only costs coverage)."""

    def __init__(self):
        self.files = {}      # rel path -> content (str, or bytes for binary)
        self.dirs = set()    # rel dirs that exist (src itself implicit)
        self.schema = None   # text or None (absent)
        self.schema_away = None
        self.ext = None
        self.has_ext = False

    def add_file(self, p, content):
        self.files[p] = content
        d = os.path.dirname(p)
        while d and d != "src" and d != "outside":
            self.dirs.add(d)
            d = os.path.dirname(d)

    def all_dirs(self):
        return sorted(d for d in self.dirs if d.startswith("src/"))

    def under(self, d):
        return [f for f in self.files if f.startswith(d + "/")]

    def remove_dir(self, d):
        for f in self.under(d):
            del self.files[f]
        self.dirs = {x for x in self.dirs if x != d and not x.startswith(d + "/")}

    def rename_dir(self, a, b):
        for f in self.under(a):
            self.files[b + f[len(a):]] = self.files.pop(f)
        nd = set()
        for x in self.dirs:
            if x == a or x.startswith(a + "/"):
                nd.add(b + x[len(a):])
            else:
                nd.add(x)
        self.dirs = nd
        self.add_file(b + "/.keep", "")
        del self.files[b + "/.keep"]

    def exists(self, p):
        return p in self.files or p in self.dirs


class CaseGen:
    def __init__(self, seed, avoid_known=False):
        """avoid_known: do not generate the edits behind the open known findings (they end a
        session: schema removed/replaced, extension removed/replaced, non-UTF-8 source file)."""
        self.seed = seed
        self.r = random.Random(seed)
        self.uniq = 0
        self.avoid_known = avoid_known
        self.defer_rate = 0.1     # batches handled only after the next edits (the watch loop was busy)

    # -- content ------------------------------------------------------------------------
    def snippet(self, d, text=None):
        text = text if text is not None else d.text
        if d.kind == "entrypoint":
            return f"export const ep_{d.parent}_{d.name} = iso(`{text}`);\n"
        return f"export const {d.export_name} = iso(`\n  {text}\n`)((x) => x);\n"

    def fresh_field(self, parent="Query", body="__typename"):
        self.uniq += 1
        n = f"Extra{self.uniq}"
        return (f"export const {n} = iso(`\n  field {parent}.{n} {{\n    {body}\n  }}\n`)((x) => x);\n")

    @staticmethod
    def render(snips):
        return HEADER + "\n".join(snips)

    def vary(self, snip):
        """A variant of one snippet: still valid / unknown field / syntax error."""
        k = self.r.choices(["typename", "unknown", "syntax", "dropline"], [40, 20, 15, 25])[0]
        i = snip.find("{\n")
        if i < 0:
            return snip + "// touched\n"
        if k == "typename":
            return snip[:i + 2] + "    __typename\n" + snip[i + 2:]
        if k == "unknown":
            return snip[:i + 2] + "    zzUnknownField\n" + snip[i + 2:]
        if k == "syntax":
            return snip[:i] + "{{" + snip[i + 1:]
        lines = snip.split("\n")
        cand = [j for j, l in enumerate(lines) if l.startswith("    ") and l.strip().rstrip(",").isidentifier()]
        if len(cand) > 1:
            del lines[self.r.choice(cand)]
            return "\n".join(lines)
        return snip + "// touched\n"

    # -- template -----------------------------------------------------------------------
    def make_template(self, root):
        r = self.r
        prof = r.choice(["core", "core", "plain", "names"])
        p = isogen.generate(runner.subseed(self.seed, "proj"), prof)
        cfg = p.config
        self.artifact_rel = os.path.normpath(os.path.join(cfg.get("artifact_directory") or cfg["project_root"], "__isograph"))
        # snippets of the program
        self.decl_snips = [self.snippet(d) for d in p.decls]
        m = Model()
        ndirs = r.randint(2, 5)
        dirs = r.sample(DIRS[:-1], ndirs)
        if r.random() < 0.6 and "a" not in dirs:
            dirs.append("a")
        if "a" in dirs and r.random() < 0.7:
            dirs.append(r.choice(["ab", "abc", "a/b"]))
        paths = []
        for _ in range(r.randint(2, 5)):
            pth = join(r.choice(dirs), r.choice(SRC_NAMES[:-1]))
            if pth not in paths and not any(q.startswith(pth + "/") or pth.startswith(q + "/") for q in paths):
                paths.append(pth)
        if r.random() < 0.5:
            # x.ts next to x.tsx: string prefix at file level
            base = r.choice(paths)
            if base.endswith(".ts") and base + "x" not in paths:
                paths.append(base + "x")
        layout = {q: [] for q in paths}
        for s in self.decl_snips:
            layout[r.choice(paths)].append(s)
        # schema-dependent and extension-dependent fields make schema edits observable
        self.schema_text = p.schema.sdl()
        self.schema_field_on = self.schema_text.replace("type Query {\n", "type Query {\n  toggled1: Int\n", 1)
        self.ext_on = "type ExtOnly1 {\n  v: Int\n}\n"
        self.ext_off = "type ExtOther {\n  w: Int\n}\n"
        m.has_ext = r.random() < 0.6
        if r.random() < 0.5:
            layout[r.choice(paths)].append(self.fresh_field("Query", "toggled1"))
            self.schema_text, self.schema_field_on = self.schema_field_on, self.schema_text
        if m.has_ext and r.random() < 0.7:
            layout[r.choice(paths)].append(self.fresh_field("ExtOnly1", "v"))
        for q, snips in layout.items():
            m.add_file(q, self.render(snips))
        self.original = {q: self.render(s) for q, s in layout.items()}
        # a few non-source files from the start
        if r.random() < 0.5:
            m.add_file(join(r.choice(dirs), "notes.md"), "# notes\n\n" + self.fresh_field())
        if r.random() < 0.3:
            m.add_file(join(r.choice(dirs), "blob.bin"), bytes.fromhex(r.choice(BINARY)))
        if r.random() < 0.3:
            q = join(r.choice(dirs), "__isograph/inner.ts")
            if not q.startswith(self.artifact_rel + "/"):      # a nested __isograph folder, not the artifact directory
                m.add_file(q, HEADER + self.fresh_field())
        m.schema = self.schema_text
        m.ext = self.ext_on if m.has_ext else None
        # write
        os.makedirs(root, exist_ok=True)
        with open(os.path.join(root, "schema.graphql"), "w") as f:
            f.write(m.schema)
        cfg = dict(cfg)
        if m.has_ext:
            cfg["schema_extensions"] = ["./schema-extension.graphql"]
            with open(os.path.join(root, "schema-extension.graphql"), "w") as f:
                f.write(m.ext)
        with open(os.path.join(root, "isograph.config.json"), "w") as f:
            json.dump(cfg, f, indent=1)
        os.makedirs(os.path.join(root, "src"), exist_ok=True)
        for q, c in m.files.items():
            full = os.path.join(root, q)
            os.makedirs(os.path.dirname(full), exist_ok=True)
            with open(full, "wb") as f:
                f.write(c if isinstance(c, bytes) else c.encode())
        self.m = m
        return m

    # -- operations -----------------------------------------------------------------------
    def new_src_path(self):
        m, r = self.m, self.r
        for _ in range(20):
            d = r.choice(DIRS)
            pth = join(d, r.choice(SRC_NAMES))
            if not m.exists(pth) and not self.blocked(pth):
                return pth
        return None

    def blocked(self, pth):
        """an ancestor is a file, or the path lies in the artifact directory"""
        d = os.path.dirname(pth)
        while d and d != "src":
            if d in self.m.files:
                return True
            d = os.path.dirname(d)
        return pth.startswith(self.artifact_rel + "/") or pth == self.artifact_rel

    def parent_exists(self, pth):
        d = os.path.dirname(pth)
        return d == "src" or d in self.m.dirs or d == "outside"

    def src_files(self):
        return sorted(f for f, c in self.m.files.items() if f.startswith("src/") and isinstance(c, str))

    def content_for_new(self):
        r = self.r
        k = r.random()
        if k < 0.45:
            return self.render([self.fresh_field()])
        if k < 0.55 and self.decl_snips:
            return self.render([r.choice(self.decl_snips)])       # duplicate definition somewhere
        if k < 0.7 and self.decl_snips:
            return self.render([self.vary(r.choice(self.decl_snips))])
        if k < 0.8:
            return self.render([self.fresh_field("Query", "toggled1")])
        if k < 0.9:
            return self.render([self.fresh_field("ExtOnly1", "v")])
        return "export const nothing = 1;\n"

    def gen_op(self):
        """Returns (op dict, touched paths) or None."""
        m, r = self.m, self.r
        kinds = [
            ("write_new", 10), ("modify", 14), ("atomic", 4), ("touch", 3), ("chmod", 1), ("remove_file", 8),
            ("remove_dir", 6), ("rename_file", 10), ("rename_ext", 5), ("rename_dir", 7), ("mkdir", 2),
            ("write_new_dir", 6), ("file_to_dir", 3), ("dir_to_file", 3), ("recreate", 3), ("nonsrc", 7),
            ("binary", 5), ("isograph_named", 4), ("stray_artifact", 2), ("move_out", 4), ("move_in", 4),
            ("schema", 10), ("ext", 6),
        ]
        if getattr(self, "weights_override", None):
            kinds = [(a, self.weights_override.get(a, b)) for a, b in kinds]
        k = r.choices([a for a, _ in kinds], [b for _, b in kinds])[0]
        # the edits behind the open known findings end a script early: keep them rare
        avoid = self.avoid_known or r.random() < 0.75
        srcs = self.src_files()
        files = sorted(f for f in m.files if f.startswith("src/"))
        dirs = m.all_dirs()
        if k == "write_new":
            pth = self.new_src_path()
            if not pth or not self.parent_exists(pth):
                return None
            c = self.content_for_new()
            m.add_file(pth, c)
            return {"op": "write", "path": pth, "text": c}, [pth]
        if k == "write_new_dir":
            pth = self.new_src_path()
            if not pth or self.parent_exists(pth):
                return None
            c = self.content_for_new()
            m.add_file(pth, c)
            top = pth
            while os.path.dirname(top) != "src" and os.path.dirname(top) not in m.dirs:
                top = os.path.dirname(top)
            return {"op": "write", "path": pth, "text": c, "slow": r.random() < 0.4}, [pth]
        if k in ("modify", "atomic", "recreate") and srcs:
            pth = r.choice(srcs)
            old = m.files[pth]
            parts = old[len(HEADER):].split("\n\n") if old.startswith(HEADER) else [old]
            choice = r.random()
            if choice < 0.25 and self.original.get(pth) not in (None, old):
                new = self.original[pth]                       # repair: back to the initial content
            elif choice < 0.5 and parts and parts[0]:
                j = r.randrange(len(parts))
                parts[j] = self.vary(parts[j])
                new = HEADER + "\n\n".join(parts)
            elif choice < 0.7:
                new = old + "\n" + self.fresh_field()
            elif choice < 0.85 and len(parts) > 1:
                del parts[r.randrange(len(parts))]
                new = HEADER + "\n\n".join(parts)
            else:
                new = self.content_for_new()
            m.files[pth] = new
            op = {"modify": "write", "atomic": "atomic_replace", "recreate": "recreate"}[k]
            return {"op": op, "path": pth, "text": new}, [pth]
        if k == "touch" and files:
            pth = r.choice(files)
            return {"op": "touch", "path": pth}, [pth]
        if k == "chmod" and files:
            pth = r.choice(files)
            return {"op": "chmod", "path": pth}, [pth]
        if k == "remove_file" and files:
            pth = r.choice(files)
            del m.files[pth]
            return {"op": "remove_file", "path": pth}, [pth]
        if k == "remove_dir" and dirs:
            d = r.choice(dirs)
            m.remove_dir(d)
            return {"op": "remove_dir", "path": d}, [d]
        if k == "rename_file" and files:
            a = r.choice(files)
            if r.random() < 0.25 and len(files) > 1:
                b = r.choice([f for f in files if f != a])          # over an existing file
            else:
                b = self.new_src_path()
                if b and r.random() < 0.4:
                    b = os.path.join(os.path.dirname(a), os.path.basename(b))
            if not b or b == a or not self.parent_exists(b) or b in m.dirs:
                return None
            if avoid and isinstance(m.files[a], bytes) and is_source_name(b):
                return None
            m.add_file(b, m.files.pop(a))
            return {"op": "rename", "from": a, "to": b}, [a, b]
        if k == "rename_ext" and files:
            a = r.choice(files)
            stem = a.rsplit(".", 1)[0]
            b = stem + r.choice([".ts", ".tsx", ".txt", ".md", ".ts.bak", ".js"])
            if b == a or m.exists(b):
                return None
            if avoid and isinstance(m.files[a], bytes) and is_source_name(b):
                return None
            m.add_file(b, m.files.pop(a))
            return {"op": "rename", "from": a, "to": b}, [a, b]
        if k == "rename_dir" and dirs:
            a = r.choice(dirs)
            if r.random() < 0.5:
                b = a + r.choice(["b", "2", "_old"])                 # sibling sharing the prefix
            else:
                b = join("", r.choice(["moved", "ab", "a", "lib/moved", "a/moved"]))
            if m.exists(b) or b.startswith(a + "/") or not self.parent_exists(b) or self.blocked(b + "/x"):
                return None
            m.rename_dir(a, b)
            return {"op": "rename", "from": a, "to": b}, [a, b]
        if k == "mkdir":
            d = join("", r.choice(DIRS[1:]))
            if m.exists(d) or not self.parent_exists(d) or self.blocked(d + "/x"):
                return None
            m.dirs.add(d)
            return {"op": "mkdir", "path": d}, [d]
        if k == "file_to_dir" and files:
            a = r.choice(files)
            c = self.content_for_new()
            del m.files[a]
            m.add_file(a + "/inner.ts", c)
            return {"op": "replace_file_by_dir", "path": a, "inner": "inner.ts", "text": c, "slow": r.random() < 0.4}, [a]
        if k == "dir_to_file" and dirs:
            d = r.choice(dirs)
            c = self.content_for_new()
            m.remove_dir(d)
            m.files[d] = c
            return {"op": "replace_dir_by_file", "path": d, "text": c}, [d]
        if k == "nonsrc":
            d = r.choice([""] + [x[4:] for x in dirs])
            pth = join(d, r.choice(NONSRC_NAMES))
            if pth in m.dirs or self.blocked(pth):
                return None
            c = "some notes\n\n" + (self.fresh_field() if r.random() < 0.8 else "plain\n")
            m.add_file(pth, c)
            return {"op": "write", "path": pth, "text": c}, [pth]
        if k == "binary":
            d = r.choice([""] + [x[4:] for x in dirs])
            name = r.choice(BIN_NAMES + (["bad.ts"] if r.random() < 0.15 and not avoid else []))
            pth = join(d, name)
            if pth in m.dirs or self.blocked(pth):
                return None
            h = r.choice(BINARY)
            m.add_file(pth, bytes.fromhex(h))
            return {"op": "write", "path": pth, "hex": h}, [pth]
        if k == "isograph_named":
            d = r.choice([""] + [x[4:] for x in dirs])
            pth = join(d, r.choice(["__isograph/inner.ts", "x__isograph.ts", "__isograph_old/y.ts"]))
            if self.blocked(pth) or pth in m.dirs:
                return None
            c = self.render([self.fresh_field()])
            slow = r.random() < 0.5
            m.add_file(pth, c)
            return {"op": "write", "path": pth, "text": c, "slow": slow}, [pth]
        if k == "stray_artifact":
            pth = self.artifact_rel + f"/stray_{r.randint(1, 3)}.ts"
            return {"op": "write", "path": pth, "text": self.render([self.fresh_field()])}, [pth]
        if k == "move_out" and (files or dirs):
            if dirs and r.random() < 0.4:
                a = r.choice(dirs)
                b = "outside/" + os.path.basename(a) + str(r.randint(1, 9))
                for f in m.under(a):
                    m.files[b + f[len(a):]] = m.files.pop(f)
                m.dirs = {x for x in m.dirs if x != a and not x.startswith(a + "/")}
                m.dirs.add(b)
            else:
                if not files:
                    return None
                a = r.choice(files)
                b = "outside/" + os.path.basename(a)
                m.files[b] = m.files.pop(a)
            return {"op": "rename", "from": a, "to": b}, [a]
        if k == "move_in":
            outs = sorted(f for f in m.files if f.startswith("outside/") and f.count("/") == 1)
            outd = sorted(d for d in m.dirs if d.startswith("outside/") and d.count("/") == 1)
            if outd and r.random() < 0.5:
                a = r.choice(outd)
                b = join("", os.path.basename(a))
                if m.exists(b):
                    return None
                for f in [f for f in m.files if f.startswith(a + "/")]:
                    m.add_file(b + f[len(a):], m.files.pop(f))
                m.dirs.discard(a)
                m.dirs.add(b)
                return {"op": "rename", "from": a, "to": b}, [b]
            if outs:
                a = r.choice(outs)
                b = self.new_src_path()
                if not b or not self.parent_exists(b):
                    return None
                if avoid and isinstance(m.files[a], bytes) and is_source_name(b):
                    return None
                m.add_file(b, m.files.pop(a))
                return {"op": "rename", "from": a, "to": b}, [b]
            return None
        if k == "schema":
            sk = r.choices(["write", "toggle", "break", "atomic", "away", "back", "delete", "recreate", "touch"],
                           [4, 8, 3, 0 if avoid else 2, 0 if avoid else 1, 4, 0 if avoid else 1, 2, 1])[0]
            S = "schema.graphql"
            if sk in ("write", "toggle", "break", "atomic") and m.schema is not None:
                if sk == "toggle" or sk == "atomic":
                    self.schema_text, self.schema_field_on = self.schema_field_on, self.schema_text
                    new = self.schema_text
                elif sk == "break":
                    new = m.schema + "\ntype {\n"
                else:
                    new = self.schema_text + f"\ntype Added{r.randint(1, 99)} {{\n  id: ID!\n}}\n"
                m.schema = new
                return {"op": "atomic_replace" if sk == "atomic" else "write", "path": S, "text": new}, [S]
            if sk == "away" and m.schema is not None:
                m.schema_away, m.schema = m.schema, None
                return {"op": "rename", "from": S, "to": "schema.graphql.bak"}, [S]
            if sk == "back" and m.schema is None and m.schema_away is not None:
                m.schema, m.schema_away = m.schema_away, None
                return {"op": "rename", "from": "schema.graphql.bak", "to": S}, [S]
            if sk == "delete" and m.schema is not None:
                m.schema = None
                return {"op": "remove_file", "path": S}, [S]
            if sk == "recreate" and m.schema is None:
                m.schema = self.schema_text
                return {"op": "write", "path": S, "text": m.schema}, [S]
            if sk == "touch" and m.schema is not None:
                return {"op": "touch", "path": S}, [S]
            return None
        if k == "ext" and m.has_ext:
            E = "schema-extension.graphql"
            ek = r.choices(["toggle", "break", "atomic", "delete", "recreate", "touch"],
                           [8, 2, 0 if avoid else 1, 0 if avoid else 1, 2, 1])[0]
            if ek in ("toggle", "atomic", "break") and m.ext is not None:
                new = self.ext_off if m.ext.startswith(self.ext_on) else self.ext_on
                if ek == "break":
                    new = m.ext + "\ntype {\n"
                m.ext = new
                return {"op": "atomic_replace" if ek == "atomic" else "write", "path": E, "text": new}, [E]
            if ek == "delete" and m.ext is not None:
                m.ext = None
                return {"op": "remove_file", "path": E}, [E]
            if ek == "recreate" and m.ext is None:
                m.ext = self.ext_on
                return {"op": "write", "path": E, "text": m.ext}, [E]
            if ek == "touch" and m.ext is not None:
                return {"op": "touch", "path": E}, [E]
            return None
        return None

    @staticmethod
    def related(a, b):
        return a == b or a.startswith(b + "/") or b.startswith(a + "/")

    def make_steps(self, nsteps):
        r = self.r
        steps = []
        guard = 0
        while len(steps) < nsteps and guard < nsteps * 30:
            guard += 1
            want = 1 if r.random() < 0.8 else r.randint(2, 3)
            ops, touched = [], []
            tries = 0
            while len(ops) < want and tries < 12:
                tries += 1
                snapshot = copy.deepcopy(self.m), self.schema_text, self.schema_field_on, self.uniq
                got = self.gen_op()
                if got is None:
                    self.m, self.schema_text, self.schema_field_on, self.uniq = snapshot
                    continue
                op, paths = got
                if any(self.related(p, q) for p in paths for q in touched):
                    self.m, self.schema_text, self.schema_field_on, self.uniq = snapshot
                    continue
                ops.append(op)
                touched += paths
            if ops:
                steps.append({"ops": ops, "gc": r.random() < 0.25, "defer": r.random() < self.defer_rate})
        return steps


def make_case(seed, root, idx, avoid_known=False):
    g = CaseGen(seed, avoid_known)
    tdir = os.path.join(root, f"t{idx}")
    g.make_template(tdir)
    steps = g.make_steps(g.r.randint(3, 25))
    return {"id": f"s{seed:016x}", "template": tdir, "steps": steps}


# ------------------------------------------------------------------------------------------
# sim shards
# ------------------------------------------------------------------------------------------
def run_sim_shard(binary, work, cases, shard_idx, shrink=True, timeout=10800):
    """Runs the cases in a child; if the child dies (abort / stack overflow) the case it was
    working on is recorded as crashed and the rest is run in a new child.
    Returns dict(results=[per-case lines], summaries=[...], crashed=[case ids])."""
    os.makedirs(work, exist_ok=True)
    results, summaries, crashed = [], [], []
    todo = list(cases)
    rounds = 0
    while todo:
        rounds += 1
        inp = os.path.join(work, f"in-{shard_idx}-{rounds}.json")
        with open(inp, "w") as f:
            json.dump({"work": os.path.join(work, f"w{shard_idx}"), "cases": todo, "shrink": shrink}, f)
        try:
            p = subprocess.run([binary, "sim", inp], stdout=subprocess.PIPE, stderr=subprocess.PIPE,
                               timeout=timeout, env=dict(runner.BASE_ENV, NO_COLOR="1"))
        except subprocess.TimeoutExpired:
            raise Inconclusive(f"watch_tools sim shard {shard_idx}: watchdog ({timeout}s)")
        started, done = None, set()
        for line in p.stdout.decode(errors="replace").splitlines():
            try:
                j = json.loads(line)
            except ValueError:
                continue
            if "start" in j:
                started = j["start"]
            elif "case" in j:
                results.append(j)
                done.add(j["case"])
            elif "summary" in j:
                summaries.append(j["summary"])
        if p.returncode == 0:
            break
        # child died
        if started is None or started in done:
            raise Inconclusive(f"watch_tools sim died (rc={p.returncode}) outside a case: "
                               f"{p.stderr.decode(errors='replace')[-400:]}")
        crashed.append({"case": started, "rc": p.returncode, "stderr": p.stderr.decode(errors="replace")[-400:]})
        ids = [c["id"] for c in todo]
        todo = todo[ids.index(started) + 1:]
        if rounds > 20:
            raise Inconclusive("watch_tools sim keeps dying")
    return {"results": results, "summaries": summaries, "crashed": crashed}


def merge_counts(dst, src):
    for k, v in src.items():
        if isinstance(v, dict):
            merge_counts(dst.setdefault(k, {}), v)
        elif isinstance(v, (int, float)) and not isinstance(v, bool):
            dst[k] = dst.get(k, 0) + v
        elif isinstance(v, list):
            dst.setdefault(k, [])
            dst[k] += v
    return dst


# ------------------------------------------------------------------------------------------
# real leg: isograph_cli --watch
# ------------------------------------------------------------------------------------------
import re  # noqa: E402
import select  # noqa: E402
import hashlib  # noqa: E402

ANSI = re.compile(r"\x1b\[[0-9;]*m")


def snapshot_dir(d):
    out = {}
    for base, _, names in os.walk(d):
        for n in names:
            p = os.path.join(base, n)
            with open(p, "rb") as f:
                out[os.path.relpath(p, d)] = hashlib.sha256(f.read()).hexdigest()
    return out


class WatchSession:
    """One real `isograph_cli --watch` process on a project directory."""

    def __init__(self, cli, proj):
        self.proj = proj
        self.p = subprocess.Popen([cli, "--config", "./isograph.config.json", "--watch"], cwd=proj,
                                  stdout=subprocess.PIPE, stderr=subprocess.STDOUT,
                                  env=dict(runner.BASE_ENV, NO_COLOR="1"))
        os.set_blocking(self.p.stdout.fileno(), False)
        self.buf = ""
        self.records = 0   # "Success!" / "Error when compiling" records consumed

    def _pump(self, wait):
        r, _, _ = select.select([self.p.stdout], [], [], wait)
        if r:
            try:
                b = os.read(self.p.stdout.fileno(), 65536)
            except BlockingIOError:
                b = b""
            if b:
                self.buf += ANSI.sub("", b.decode(errors="replace"))
                return True
        return False

    def next_record(self, wall_s):
        """Waits for the next compile record. Returns 'ok' / 'error' / None (none within the
        bound) / 'exited'."""
        t0 = time.time()
        while True:
            m = re.search(r"(Success! Compiled|Error when compiling)", self.buf)
            if m:
                kind = "ok" if m.group(1).startswith("Success") else "error"
                # consume through the end of this record
                self.buf = self.buf[m.end():]
                self.records += 1
                return kind
            if self.p.poll() is not None:
                self._pump(0.05)
                if not re.search(r"(Success! Compiled|Error when compiling)", self.buf):
                    return "exited"
                continue
            if time.time() - t0 > wall_s:
                return None
            self._pump(0.1)

    def drain(self, quiet_s=0.4):
        """Consume records until nothing arrives for quiet_s; returns the kind of the last one."""
        last = None
        while True:
            k = self.next_record(quiet_s)
            if k in (None, "exited"):
                return last, k
            last = k

    def alive(self):
        return self.p.poll() is None

    def close(self):
        if self.p.poll() is None:
            self.p.kill()
        try:
            self.p.wait(timeout=5)
        except Exception:
            pass
        return self.buf[-800:]


PROBE = "src/zz_probe.ts"


def apply_op_real(proj, op):
    """The same operations as the Rust executor, with real syscalls from python.
    Returns False if the operation does not apply to the tree as it is."""
    P = lambda rel: os.path.join(proj, rel)  # noqa: E731
    k = op["op"]
    try:
        if k == "mkdir":
            if os.path.exists(P(op["path"])) or not os.path.isdir(os.path.dirname(P(op["path"]))):
                return False
            os.mkdir(P(op["path"]))
        elif k == "write":
            p = P(op["path"])
            if os.path.isdir(p):
                return False
            data = bytes.fromhex(op["hex"]) if op.get("hex") else (op.get("text") or "").encode()
            d = os.path.dirname(p)
            missing = []
            while not os.path.exists(d):
                missing.append(d)
                d = os.path.dirname(d)
            if not os.path.isdir(d):
                return False
            for m in reversed(missing):
                os.mkdir(m)
                if op.get("slow"):
                    time.sleep(0.35)      # the recursive watch reaches the new folder first
            with open(p, "wb") as f:
                f.write(data)
        elif k == "touch":
            p = P(op["path"])
            if not os.path.isfile(p):
                return False
            with open(p, "rb") as f:
                b = f.read()
            with open(p, "wb") as f:
                f.write(b)
        elif k == "chmod":
            p = P(op["path"])
            if not os.path.isfile(p):
                return False
            os.chmod(p, 0o664 if (os.stat(p).st_mode & 0o777) == 0o644 else 0o644)
        elif k == "atomic_replace":
            p = P(op["path"])
            if os.path.isdir(p) or not os.path.isdir(os.path.dirname(p)):
                return False
            tmp = os.path.join(os.path.dirname(p), "." + os.path.basename(p) + ".tmp")
            with open(tmp, "w") as f:
                f.write(op["text"])
            os.rename(tmp, p)
        elif k == "remove_file":
            if not os.path.isfile(P(op["path"])):
                return False
            os.remove(P(op["path"]))
        elif k == "remove_dir":
            p = P(op["path"])
            if not os.path.isdir(p) or "__isograph" == os.path.basename(p) and False:
                return False
            shutil.rmtree(p)
        elif k == "rename":
            f, t = P(op["from"]), P(op["to"])
            if not os.path.exists(f) or not os.path.isdir(os.path.dirname(t)) or (t + "/").startswith(f + "/"):
                return False
            if os.path.exists(t) and (os.path.isdir(f) or os.path.isdir(t)):
                return False
            os.rename(f, t)
        elif k == "replace_file_by_dir":
            p = P(op["path"])
            if not os.path.isfile(p):
                return False
            os.remove(p)
            os.mkdir(p)
            if op.get("slow"):
                time.sleep(0.35)
            with open(os.path.join(p, op["inner"]), "w") as f:
                f.write(op["text"])
        elif k == "replace_dir_by_file":
            p = P(op["path"])
            if not os.path.isdir(p):
                return False
            shutil.rmtree(p)
            with open(p, "w") as f:
                f.write(op["text"])
        elif k == "recreate":
            p = P(op["path"])
            if not os.path.isfile(p):
                return False
            os.remove(p)
            with open(p, "w") as f:
                f.write(op["text"])
        else:
            return False
    except OSError:
        return False
    return True


def proc_cpu_ticks(pid):
    try:
        with open(f"/proc/{pid}/stat") as f:
            parts = f.read().rsplit(")", 1)[1].split()
        return int(parts[11]) + int(parts[12])
    except (OSError, IndexError, ValueError):
        return None


def batch_outcome(tool, proj, scratch, artifact_rel):
    """A fresh batch compile (watch_tools batch = CompilerState::new + compile, what the CLI's
    compile_and_print does; the debug CLI needs > 1 s per compile) of a copy of the project
    without its artifact directory."""
    if os.path.exists(scratch):
        shutil.rmtree(scratch)

    def ignore(d, names):
        return [n for n in names if os.path.normpath(os.path.join(d, n)) == os.path.normpath(os.path.join(proj, artifact_rel))]

    shutil.copytree(proj, scratch, ignore=ignore, symlinks=True)
    try:
        p = subprocess.run([tool, "batch", scratch], stdout=subprocess.PIPE, stderr=subprocess.PIPE, timeout=120,
                           env=dict(runner.BASE_ENV, NO_COLOR="1"))
    except subprocess.TimeoutExpired:
        raise Inconclusive("batch compile of the copy: watchdog")
    try:
        j = json.loads(p.stdout.decode(errors="replace").strip().splitlines()[-1])
    except (ValueError, IndexError):
        return {"kind": "crash", "text": f"rc={p.returncode} " + p.stderr.decode(errors="replace")[-300:]}
    if j["kind"] == "ok":
        return {"kind": "ok", "artifacts": snapshot_dir(os.path.join(scratch, artifact_rel))}
    return {"kind": j["kind"], "text": j.get("text", "")[-600:]}


def real_session(cli, tool, seed, work, idx, n_steps):
    """One watch session. Returns dict(status='held'|'violation'|'inconclusive', ...)."""
    g = CaseGen(seed, avoid_known=True)
    proj = os.path.join(work, f"real{idx}", "proj")
    scratch = os.path.join(work, f"real{idx}", "copy")
    os.makedirs(os.path.dirname(proj), exist_ok=True)
    g.make_template(proj)
    os.makedirs(os.path.join(proj, "outside"), exist_ok=True)
    with open(os.path.join(proj, PROBE), "w") as f:
        f.write("export const probe = 1;\n")
    steps = g.make_steps(n_steps)
    # the one more edit that shows the watcher still reacts
    steps.append({"ops": [{"op": "write", "path": "src/zz_last_edit.ts", "text": g.render([g.fresh_field()])}],
                  "gc": False, "last": True})
    art = g.artifact_rel
    out = {"status": "held", "seed": seed, "steps": 0, "records_ok": 0, "records_error": 0, "comparisons": 0,
           "ops": {}, "waited_long": 0}
    strays = set()
    s = WatchSession(cli, proj)
    try:
        first = s.next_record(60)
        if first in (None, "exited"):
            out.update(status="inconclusive", why=f"no initial compile record ({first}): {s.buf[-300:]}")
            return out
        last_kind = first
        # The watcher is created after the initial compile; edits made before inotify watches
        # exist are lost (start-up window, not part of the property). Touch the probe until a
        # recompile record shows that the watcher is live.
        live = False
        for _ in range(60):
            apply_op_real(proj, {"op": "touch", "path": PROBE})
            k = s.next_record(0.5)
            if k == "exited":
                out.update(status="inconclusive", why="watcher exited during start-up: " + s.buf[-300:])
                return out
            if k:
                last_kind = k
                live = True
                break
        if not live:
            out.update(status="inconclusive", why="watcher never reacted to the probe file during start-up")
            return out
        k, _ = s.drain(0.6)
        last_kind = k or last_kind
        prev_art = snapshot_dir(os.path.join(proj, art))
        for si, step in enumerate(steps):
            applied = []
            step_strays = set()
            for op in step["ops"]:
                if op.get("path", "").startswith(art + "/"):
                    strays.add(os.path.relpath(op["path"], art))
                    step_strays.add(os.path.relpath(op["path"], art))
                in_art = [q for q in (op.get("path"), op.get("from"), op.get("to")) if q and (q + "/").startswith(art + "/")]
                if in_art and op["op"] != "write":
                    continue          # only stray writes are made inside the artifact directory
                if apply_op_real(proj, op):
                    applied.append(op)
                    out["ops"][op["op"]] = out["ops"].get(op["op"], 0) + 1
            out["steps"] += 1
            if not applied:
                continue
            want = batch_outcome(tool, proj, scratch, art)
            if want["kind"] == "crash":
                out.update(status="inconclusive", why="batch compile of the copy crashed (C08 territory): " + want["text"][-200:])
                return out
            agreed = False
            mismatch = None
            records_before = s.records
            for attempt in (0, 1):
                if attempt == 0:
                    k, end = s.drain(1.2)
                else:
                    # Not equal after a quiet period. Timing must not decide: touch the probe file
                    # (identical bytes). Events are handled in order, so once the record of the
                    # probe's recompile is seen, everything before it has been handled.
                    out["probes"] = out.get("probes", 0) + 1
                    apply_op_real(proj, {"op": "touch", "path": PROBE})
                    k = s.next_record(60)
                    if k is None:
                        out.update(status="inconclusive", why="no record within 60 s after touching the probe file")
                        return out
                    end = k if k == "exited" else None
                    if k != "exited":
                        k2, end = s.drain(0.6)
                        k = k2 or k
                if k and k != "exited":
                    last_kind = k
                    out["records_ok" if k == "ok" else "records_error"] += 1
                if end == "exited" or not s.alive():
                    return dict(out, status="violation", rule="watcher-stops", step=si,
                                what="isograph_cli --watch exited after an edit: " + first_panic(s.buf),
                                cause=exit_cause(s.buf, applied),
                                witness={"seed": seed, "steps": steps[:si + 1], "output_tail": s.buf[-4000:]})
                raw_art = snapshot_dir(os.path.join(proj, art))
                got_art = {p: h for p, h in raw_art.items() if p not in strays}
                if want["kind"] == "ok":
                    ok = last_kind == "ok" and got_art == want["artifacts"]
                    if not ok:
                        mismatch = ("watch says %s, batch compile of a copy succeeds; %d artifact file(s) differ"
                                    % (last_kind, len({p for p in set(got_art) | set(want["artifacts"])
                                                       if got_art.get(p) != want["artifacts"].get(p)})))
                else:
                    ok = last_kind == "error"
                    if not ok:
                        mismatch = "watch says ok, batch compile of a copy fails: " + want["text"][-200:].replace("\n", " | ")
                    elif ({p: h for p, h in raw_art.items() if p not in step_strays}
                          != {p: h for p, h in prev_art.items() if p not in step_strays}
                          and s.records - records_before == 1):
                        # C17 (watch clause): failed recompile must not touch the directory
                        return dict(out, status="violation", rule="c17-watch-failed-compile-touched-artifacts", step=si,
                                    what="artifact directory changed although the recompile failed",
                                    cause=cause_of_ops(applied), witness={"seed": seed, "steps": steps[:si + 1]})
                if ok:
                    agreed = True
                    break
            out["comparisons"] += 1
            if not agreed:
                return dict(out, status="violation", rule="diverged", step=si,
                            what="real watcher, after the probe recompile: " + (mismatch or ""),
                            cause=cause_of_ops(applied), witness={"seed": seed, "steps": steps[:si + 1]})
            prev_art = snapshot_dir(os.path.join(proj, art))
        if not s.alive():
            return dict(out, status="violation", rule="watcher-stops", step=len(steps), what="watcher not alive at the end",
                        cause="end-of-session", witness={"seed": seed, "steps": steps})
        return out
    finally:
        out["tail"] = s.close()[-200:]
        shutil.rmtree(os.path.join(work, f"real{idx}"), ignore_errors=True)


def first_panic(buf):
    m = re.search(r"thread '[^']*'[^\n]*panicked at[^\n]*\n[^\n]*", buf)
    if m:
        return m.group(0).replace("\n", " | ")[:400]
    return buf[-300:].replace("\n", " | ")


def exit_cause(buf, ops):
    """The watcher process ended. If a thread of the notify / notify-debouncer-full crates panicked
    (the first panic decides), that is the cause, whatever the edit was."""
    m = re.search(r"thread '([^']*)'[^\n]*panicked at ([^\n:]*)", buf)
    if m and ("notify" in m.group(1) or "/notify-" in m.group(2)):
        return "real:notify-thread-panicked"
    # the same causes as in the sim leg
    if "Unable to convert file to utf8" in buf[-3000:]:
        return "non-utf8-source-file"
    if "Schema not found" in buf[-3000:]:
        return "schema-removed-or-replaced"
    return cause_of_ops(ops)


def cause_of_ops(ops):
    def cls(p):
        if p == "schema.graphql":
            return "schema"
        if p.startswith("schema-extension"):
            return "extension"
        if not p.startswith("src/"):
            return "outside"
        if "__isograph" in p:
            return "isograph-named"
        ext = os.path.basename(p).rsplit(".", 1)
        if len(ext) == 2:
            return "source" if ext[1] in ("ts", "tsx", "js", "jsx") else "non-source"
        return "folder"
    parts = []
    for op in ops:
        if op["op"] == "rename":
            parts.append(f"rename:{cls(op['from'])}-to-{cls(op['to'])}")
        else:
            parts.append(f"{op['op'].replace('_', '-')}:{cls(op['path'])}")
    return "real:" + "+".join(parts)


# ------------------------------------------------------------------------------------------
# event shapes: the synthesised events of the sim leg rest on data/event_shapes.json
# ------------------------------------------------------------------------------------------
STABLE_SCENARIOS = [
    "create_file", "modify_file_truncate_write", "append_file", "chmod_file", "rename_file_same_dir",
    "rename_file_across_dirs", "rename_file_over_existing", "atomic_save_tmp_then_rename_over",
    "rename_file_out_of_tree", "rename_file_into_tree", "delete_file", "delete_then_recreate_file", "mkdir",
    "create_file_in_new_dir_later", "rename_dir", "rename_dir_into_other_dir", "remove_dir_all_with_files",
    "rename_dir_out_of_tree", "rename_dir_into_tree", "replace_folder_by_file", "create_file_in_artifact_dir",
    "schema_modify_in_place", "schema_atomic_replace", "schema_modify_after_atomic_replace", "schema_rename_away",
    "schema_rename_back", "schema_delete", "schema_recreate", "extension_modify_in_place", "extension_atomic_replace",
    "extension_delete", "extension_recreate",
]


def _flat(batches):
    out = []
    for b in batches:
        if isinstance(b, list):
            out += [(e["kind"], tuple(e["paths"])) for e in b if not e["kind"].startswith("Access")]
    return out


def recheck_event_shapes(tool, scratch):
    """Records the shapes again with the real debouncer and compares the timing-independent
    scenarios with the checked-in file. Returns (n_checked, [mismatching scenario names])."""
    try:
        p = subprocess.run([tool, "record-shapes", scratch], stdout=subprocess.PIPE, stderr=subprocess.PIPE, timeout=600)
    except subprocess.TimeoutExpired:
        raise Inconclusive("record-shapes: watchdog")
    if p.returncode != 0:
        raise Inconclusive("record-shapes failed: " + p.stderr.decode(errors="replace")[-300:])
    now = json.loads(p.stdout.decode())["scenarios"]
    with open(os.path.join(runner.VERIF, "data", "event_shapes.json")) as f:
        ref = json.load(f)["scenarios"]
    bad = [n for n in STABLE_SCENARIOS if _flat(now.get(n, [])) != _flat(ref.get(n, []))]
    return len(STABLE_SCENARIOS), bad
