"""Seeded generator of isograph projects: GraphQL schema + iso literals in source
files + isograph.config.json, well-typed by construction, with hazard features
switched on by profile.  Also the schema model used by the oracles.

Type refs are tuples: ('named', N) | ('list', T) | ('nonnull', T)."""
import json
import os
import random

SCALARS = ["String", "Int", "Float", "Boolean", "ID"]


def named(n):
    return ("named", n)


def lst(t):
    return ("list", t)


def nn(t):
    return ("nonnull", t)


def type_str(t):
    if t[0] == "named":
        return t[1]
    if t[0] == "list":
        return "[" + type_str(t[1]) + "]"
    return type_str(t[1]) + "!"


def base(t):
    while t[0] != "named":
        t = t[1]
    return t[1]


def nullable(t):
    return t[0] != "nonnull"


def list_depth(t):
    d = 0
    while t[0] != "named":
        if t[0] == "list":
            d += 1
        t = t[1]
    return d


def strip_nn(t):
    return t[1] if t[0] == "nonnull" else t


class Schema:
    def __init__(self):
        self.types = {}      # name -> dict(kind, fields{name:{type,args{name:{type,default}},desc}}, interfaces[], possible[], values[], desc)
        self.order = []
        self.exposed = []    # [(root, directive dict)]

    def add(self, name, kind, **kw):
        self.types[name] = dict(kind=kind, fields={}, interfaces=[], possible=[], values=[], desc=None, **kw)
        self.order.append(name)
        return self.types[name]

    def kind(self, n):
        return self.types[n]["kind"] if n in self.types else ("SCALAR" if n in SCALARS else None)

    def is_leaf(self, n):
        return self.kind(n) in ("SCALAR", "ENUM")

    def is_abstract(self, n):
        return self.kind(n) in ("INTERFACE", "UNION")

    def possible_types(self, n):
        k = self.kind(n)
        if k == "OBJECT":
            return [n]
        if k == "UNION":
            return list(self.types[n]["possible"])
        if k == "INTERFACE":
            return [t for t in self.order if self.types[t]["kind"] == "OBJECT" and n in self.types[t]["interfaces"]]
        return []

    def field(self, tname, fname):
        if fname == "__typename":
            return {"type": nn(named("String")), "args": {}}
        return self.types[tname]["fields"].get(fname)

    # ---- printing -------------------------------------------------------
    def sdl(self, desc_style=None):
        out = []
        for n in self.order:
            t = self.types[n]
            k = t["kind"]
            if t.get("desc") is not None:
                out.append(fmt_desc(t["desc"], ""))
            if k == "SCALAR":
                out.append(f"scalar {n}\n")
            elif k == "ENUM":
                out.append(f"enum {n} {{\n" + "".join(f"  {v}\n" for v in t["values"]) + "}\n")
            elif k == "UNION":
                out.append(f"union {n} = " + " | ".join(t["possible"]) + "\n")
            else:
                kw = {"OBJECT": "type", "INTERFACE": "interface", "INPUT": "input"}[k]
                impl = (" implements " + " & ".join(t["interfaces"])) if t["interfaces"] else ""
                lines = []
                for fname, f in t["fields"].items():
                    if f.get("desc") is not None:
                        lines.append(fmt_desc(f["desc"], "  ").rstrip("\n"))
                    args = ""
                    if f.get("args"):
                        args = "(" + ", ".join(
                            f"{a}: {type_str(ad['type'])}" + (f" = {gql_value(ad['default'])}" if ad.get("default") is not None else "")
                            for a, ad in f["args"].items()) + ")"
                    dflt = f" = {gql_value(f['default'])}" if k == "INPUT" and f.get("default") is not None else ""
                    lines.append(f"  {fname}{args}: {type_str(f['type'])}{dflt}")
                out.append(f"{kw} {n}{impl} {{\n" + "\n".join(lines) + "\n}\n")
        return "\n".join(out)

    def to_json(self):
        return {"types": {n: {"kind": t["kind"], "interfaces": t["interfaces"], "possible": self.possible_types(n),
                              "values": t["values"],
                              "fields": {f: {"type": type_str(fd["type"]),
                                             "args": {a: {"type": type_str(ad["type"]), "has_default": ad.get("default") is not None}
                                                      for a, ad in fd.get("args", {}).items()}}
                                         for f, fd in t["fields"].items()}}
                          for n, t in self.types.items()}}


def fmt_desc(text, indent):
    if "\n" in text or '"' in text or "\\" in text:
        body = text.replace('"""', '\\"""')
        return f'{indent}"""\n' + "\n".join(indent + l for l in body.split("\n")) + f'\n{indent}"""\n'
    return f'{indent}"{text}"\n'


def gql_value(v):
    k = v[0]
    if k == "int":
        return str(v[1])
    if k == "str":
        return json.dumps(v[1])
    if k == "bool":
        return "true" if v[1] else "false"
    if k == "null":
        return "null"
    if k == "enum":
        return v[1]
    if k == "var":
        return "$" + v[1]
    if k == "obj":
        return "{" + ", ".join(f"{a}: {gql_value(b)}" for a, b in v[1]) + "}"
    raise ValueError(v)


# ---------------------------------------------------------------------------
# iso declarations
# ---------------------------------------------------------------------------
def iso_value(v):
    k = v[0]
    if k == "str":
        return '"' + v[1] + '"'       # iso string literals are raw (no escape processing)
    if k == "obj":
        return "{ " + ", ".join(f"{a}: {iso_value(b)}" for a, b in v[1]) + " }"
    return gql_value(v)


class Sel:
    """One selection.  kind: scalar | object | client | pointer | typename | link | refetch"""

    def __init__(self, kind, name, parent, ftype=None, alias=None, args=None, directives=None, sels=None, target=None):
        self.kind, self.name, self.parent, self.ftype = kind, name, parent, ftype
        self.alias, self.args, self.directives = alias, args or [], directives or []
        self.sels, self.target = sels, target

    def key(self):
        return self.alias or self.name

    def clone(self):
        return Sel(self.kind, self.name, self.parent, self.ftype, self.alias, list(self.args), list(self.directives),
                   [s.clone() for s in self.sels] if self.sels is not None else None, self.target)

    def to_json(self):
        return {"kind": self.kind, "name": self.name, "parent": self.parent, "alias": self.alias,
                "type": type_str(self.ftype) if self.ftype else None,
                "args": [[a, gql_value(v)] for a, v in self.args], "directives": self.directives,
                "target": self.target,
                "selections": [s.to_json() for s in self.sels] if self.sels is not None else None}


class Decl:
    def __init__(self, kind, parent, name, variables=None, directives=None, sels=None, target=None, desc=None):
        self.kind, self.parent, self.name = kind, parent, name       # field | pointer | entrypoint
        self.variables = variables or []                            # [(name, type, default)]
        self.directives, self.sels, self.target, self.desc = directives or [], sels, target, desc
        self.file = None
        self.header_ws = None

    def ident(self):
        return f"{self.parent}.{self.name}"

    def to_json(self):
        return {"kind": self.kind, "parent": self.parent, "name": self.name,
                "variables": [[n, type_str(t), gql_value(d) if d else None] for n, t, d in self.variables],
                "directives": self.directives, "target": type_str(self.target) if self.target else None,
                "file": self.file,
                "selections": [s.to_json() for s in self.sels] if self.sels is not None else None}


def print_sels(sels, ind, rng, style):
    out = []
    for s in sels:
        line = ind
        if s.alias:
            line += s.alias + ": "
        line += s.name
        if s.args:
            if style.get("multiline_args") and rng.random() < 0.4:
                line += "(\n" + "".join(f"{ind}  {a}: {iso_value(v)}\n" for a, v in s.args) + ind + ")"
            else:
                line += "(" + ", ".join(f"{a}: {iso_value(v)}" for a, v in s.args) + ")"
        for d in s.directives:
            line += " @" + d
        if s.sels is not None:
            line += " {\n" + print_sels(s.sels, ind + "  ", rng, style) + ind + "}"
        out.append(line + ("," if style.get("commas") and rng.random() < 0.5 else "") + "\n")
    return "".join(out)


def print_decl(d, rng, style=None):
    style = style or {}
    ws = d.header_ws or (" ", " ")
    if d.kind == "entrypoint":
        dirs = "".join(" @" + x for x in d.directives)
        return f"entrypoint{ws[0]}{d.parent}.{d.name}{dirs}"
    kw = "field" if d.kind == "field" else "pointer"
    head = f"{kw}{ws[0]}{d.parent}.{d.name}"
    if d.variables:
        head += "(" + ", ".join(
            f"${n}: {type_str(t)}" + (f" = {iso_value(dv)}" if dv is not None else "") for n, t, dv in d.variables) + ")"
    if d.kind == "pointer":
        head += " to " + type_str(d.target)
    for x in d.directives:
        head += " @" + x
    desc = ""
    if d.desc is not None:
        desc = f'\n    """\n    {d.desc}\n    """\n '
    return f"{head}{ws[1]}{desc}{{\n" + print_sels(d.sels, "    ", rng, style) + "  }"


class Project:
    def __init__(self, seed, profile):
        self.seed, self.profile = seed, profile
        self.schema = Schema()
        self.decls = []
        self.files = {}
        self.config = {}
        self.extension_sdl = None
        self.tags = set()

    def decl(self, ident):
        for d in self.decls:
            if d.kind != "entrypoint" and d.ident() == ident:
                return d
        return None

    def entrypoints(self):
        return [d for d in self.decls if d.kind == "entrypoint"]

    def render_files(self, rng=None, layout=None):
        """Source files: `export const X = iso(`...`)(fn)`.  layout: {file: [decl idx]} or None = d.file."""
        rng = rng or random.Random(self.seed ^ 0x5EED)
        files = {}
        style = self.style
        for d in self.decls:
            files.setdefault(d.file, [])
            text = print_decl(d, rng, style)
            d.text = text
            if d.kind == "entrypoint":
                files[d.file].append(f"export const ep_{d.parent}_{d.name} = iso(`{text}`);\n")
            else:
                files[d.file].append(f"export const {d.export_name} = iso(`\n  {text}\n`)((x) => x);\n")
        self.files = {f: "import { iso } from '@iso';\n\n" + "\n".join(parts) for f, parts in files.items()}
        return self.files

    def write(self, root):
        os.makedirs(root, exist_ok=True)
        with open(os.path.join(root, "schema.graphql"), "w") as f:
            f.write(self.schema.sdl())
        cfg = dict(self.config)
        if self.extension_sdl:
            with open(os.path.join(root, "schema-extension.graphql"), "w") as f:
                f.write(self.extension_sdl)
            cfg["schema_extensions"] = ["./schema-extension.graphql"]
        with open(os.path.join(root, "isograph.config.json"), "w") as f:
            json.dump(cfg, f, indent=1)
        for rel, text in self.files.items():
            p = os.path.join(root, cfg["project_root"], rel)
            os.makedirs(os.path.dirname(p), exist_ok=True)
            with open(p, "w") as f:
                f.write(text)
        return root

    def model_json(self):
        return {"seed": self.seed, "profile": self.profile, "tags": sorted(self.tags), "config": self.config,
                "schema": self.schema.to_json(), "decls": [d.to_json() for d in self.decls]}


# ---------------------------------------------------------------------------
# generation
# ---------------------------------------------------------------------------
# strings that the iso language accepts (BMP, no quote/backslash/backtick/line break) but that are
# hostile to the printers downstream (JS string literal, GraphQL text, alias generation)
HOSTILE_STRINGS = ["it's", "a b", "a_b", "a-b", "\u00e9", "\u65e5\u672c", "semi;colon", "$dollar", "{brace}", "",
                   "x" * 30, "*/ end", "<!--", "a'b'c", "#hash", "per%cent", "q?x=1&y=2", "new line n", "\u2028sep",
                   "two  spaces", "tab\there", " lead and trail "]
HOSTILE_DESCS = ["plain description", "ends comment */ here", "/* opens", "back`tick", "${interp}", 'has "quotes"',
                 "line one\nline two", "unicode \u2028 sep", "trailing backslash \\", "it's"]
# C12 argument hazard pools (iso string literals are raw: no quote, backslash, backtick or line break inside)
ARG_HAZARD_STRINGS = ["a b", "a_b", "a-b", "a.b", "a/b", "A b", "a  b", "a__b", "", " ", "_", "__", "___", "____", "a____t___s_b",
                      "a\\nb", "a\\\\b", 'a\\"b', "\\u0041", "a\\/b", "\u00e9", "e\u0301", "\u65e5\u672c", "\u00df",
                      "\uffff", "\u2028", "l_5", "v_vs", "s_", "o_n__l_1_c", "null", "true", "5", "-5", "n5", "it's", "$vs", "{x}", "a,b", "a:b",
                      "q__s_x", "x_limit__l_1", "tab\there", "0", "-0", "1e3", "\u0131", "\u017f", "\u212a"]
ARG_HAZARD_ALPHABET = ["a", "b", "A", "0", "9", "_", " ", "-", ".", "\u00e9", "\ufffd", "\ud7ff", "\uffff", "$", "'", "/", "\u0301", "\\n", "\\\\"]
# characters outside the BMP are rejected by the iso lexer (June-2018 SourceCharacter), so they can only be fed to the
# runtime key function directly
ARG_HAZARD_ASTRAL = ["\U0001F600", "x\U0001F600y", "\U0001D4B3", "\U0001F468\u200D\U0001F469", "\U00010000"]
DECL_DESCS = ["plain description", "ends comment */ here", "/* opens", "it's", "line one\n    line two", "unicode \u00e9"]


class Generator:
    def __init__(self, seed, profile="core", **opts):
        self.rng = random.Random(seed)
        self.p = Project(seed, profile)
        self.profile = profile
        self.o = dict(hazard_strings=False, hazard_descs=False, negative_ints=True, aliases=True, loadable=True,
                      refetch=True, abstract=True, prefix_names=False, client_args=True, objects_args=True,
                      pointers=False, updatable=False, max_types=4, max_decls=6, header_ws=False, max_depth=3,
                      # --- options added for the runtime checks (C10/C12/C25); all default to off so that the
                      # existing profiles generate the same project for the same seed -------------------------
                      link=False,            # select `__link`
                      lazy_loadable=False,   # `@loadable(lazyLoadArtifact: true)` on some loadable selections
                      exposed=False,         # Mutation type + schema-extension with @exposeField, selected imperatively
                      mutation_entrypoints=False,  # client fields on Mutation + `entrypoint Mutation.X`
                      var_defaults=False,    # client field variables with default values, omitted at the selection
                      reuse=False,           # C25 workload: one hub client field with refetchable selections reused
                      arg_hazard=0,          # C12 workload: N selections of one field with adversarial argument lists
                      force_ids=False)       # every object type implements Node (refetch/pointers need ids)
        self.o.update(opts)
        self.ptrs = {}      # parent type -> [pointer Decl]
        self.exposed_on = {}  # type -> [exposed field name]
        self.p.style = {"commas": True, "multiline_args": True}

    # -- schema ----------------------------------------------------------
    def gen_schema(self):
        r, s = self.rng, self.p.schema
        o = self.o
        s.add("Node", "INTERFACE")["fields"]["id"] = {"type": nn(named("ID")), "args": {}}
        nobj = r.randint(2, o["max_types"])
        base_names = ["User", "Pet", "Post", "Item", "Team", "Foo", "Bar"]
        if o["prefix_names"]:
            base_names = ["Foo", "FooBar", "Foo_", "FooBarBaz", "Fo", "Bar"]
        r.shuffle(base_names)
        objs = base_names[:nobj]
        enum = s.add("Color", "ENUM")
        enum["values"] = ["RED", "GREEN", "BLUE"]
        s.add("DateTime", "SCALAR")
        inp2 = s.add("InnerInput", "INPUT")
        inp2["fields"]["n"] = {"type": named("Int"), "args": {}}
        inp2["fields"]["label"] = {"type": named("String"), "args": {}}
        inp = s.add("FilterInput", "INPUT")
        inp["fields"]["q"] = {"type": nn(named("String")), "args": {}}
        inp["fields"]["limit"] = {"type": named("Int"), "args": {}}
        inp["fields"]["inner"] = {"type": named("InnerInput"), "args": {}}
        inp["fields"]["flag"] = {"type": named("Boolean"), "args": {}}
        for n in objs:
            t = s.add(n, "OBJECT")
            if r.random() < 0.7 or o["force_ids"]:
                t["fields"]["id"] = {"type": nn(named("ID")), "args": {}}
                t["interfaces"].append("Node")
        ifaces = []
        if o["abstract"] and len(objs) >= 2:
            i = s.add("Named", "INTERFACE")
            i["fields"]["label"] = {"type": named("String"), "args": {}}
            impls = r.sample(objs, r.randint(1, len(objs)))
            for n in impls:
                s.types[n]["interfaces"].append("Named")
                s.types[n]["fields"]["label"] = {"type": named("String"), "args": {}}
            ifaces.append("Named")
            u = s.add("Thing", "UNION")
            u["possible"] = sorted(r.sample(objs, r.randint(1, len(objs))))
            ifaces.append("Thing")
        # scalar and object fields
        leafs = ["String", "Int", "Float", "Boolean", "ID", "Color", "DateTime"]
        targets = objs + ifaces + (["Node"] if any("Node" in s.types[n]["interfaces"] for n in objs) else [])
        fnames = ["name", "title", "count", "score", "flag", "tag", "when", "color", "note", "alt"]
        onames = ["owner", "friend", "items", "best", "thing", "named", "others", "parent"]
        for n in objs + ["Query"]:
            t = s.types.get(n) or s.add(n, "OBJECT")
            for fn in r.sample(fnames, r.randint(2, 5)):
                if fn in t["fields"]:
                    continue
                ft = self.wrap(named(r.choice(leafs)), leaf=True)
                t["fields"][fn] = {"type": ft, "args": self.gen_args(leafs) if r.random() < 0.35 else {}}
                if o["hazard_descs"] and r.random() < 0.5:
                    t["fields"][fn]["desc"] = r.choice(HOSTILE_DESCS)
            for fn in r.sample(onames, r.randint(1, 4)):
                if fn in t["fields"]:
                    continue
                ft = self.wrap(named(r.choice(targets)), leaf=False)
                t["fields"][fn] = {"type": ft, "args": self.gen_args(leafs) if r.random() < 0.4 else {}}
            if o["hazard_descs"] and r.random() < 0.5:
                t["desc"] = r.choice(HOSTILE_DESCS)
        q = s.types["Query"]
        q["fields"]["node"] = {"type": named("Node"), "args": {"id": {"type": nn(named("ID"))}}}
        if o["reuse"]:
            self.schema_for_reuse(objs)
        if o["arg_hazard"]:
            self.schema_for_arg_hazard(objs)
        if o["exposed"] or o["mutation_entrypoints"]:
            self.schema_mutations(objs)
        # make Query first like most schemas
        s.order.remove("Query")
        s.order.insert(0, "Query")
        return s

    # -- schema additions for the runtime workloads ------------------------------------------------
    def node_types(self, objs=None):
        s = self.p.schema
        return [n for n in (objs or s.order) if s.kind(n) == "OBJECT" and "Node" in s.types[n]["interfaces"]]

    def schema_mutations(self, objs):
        """`type Mutation` whose fields return payload objects that lead to Node types; with `exposed`, a
        schema-extension file exposing them on the Node type via @exposeField (imperatively loaded fields)."""
        r, s, o = self.rng, self.p.schema, self.o
        targets = self.node_types(objs)
        if not targets:
            return
        m = s.add("Mutation", "OBJECT")
        ext = []
        for i, tn in enumerate(targets[:3]):
            low = tn.lower().rstrip("_")
            pay = s.add(tn + "Payload", "OBJECT")
            via_abstract = "Named" in s.types and "Named" in s.types[tn]["interfaces"] and r.random() < 0.4
            pay["fields"]["ok"] = {"type": named("Boolean"), "args": {}}
            if via_abstract:
                pay["fields"]["item"] = {"type": named("Named"), "args": {}}
                sub = f"item.as{tn}"
            else:
                pay["fields"]["target"] = {"type": r.choice([named(tn), nn(named(tn))]), "args": {}}
                sub = "target"
            inp = s.add(tn + "Input", "INPUT")
            inp["fields"]["id"] = {"type": nn(named("ID")), "args": {}}
            inp["fields"]["label"] = {"type": named("String"), "args": {}}
            inp["fields"]["n"] = {"type": named("Int"), "args": {}}
            m["fields"][f"set_{low}"] = {"type": r.choice([named(tn + "Payload"), nn(named(tn + "Payload"))]),
                                         "args": {"id": {"type": nn(named("ID"))}, "label": {"type": named("String")}}}
            m["fields"][f"update_{low}"] = {"type": nn(named(tn + "Payload")), "args": {"input": {"type": nn(named(tn + "Input"))}}}
            if o["exposed"]:
                ext.append(f'  @exposeField(field: "set_{low}.{sub}", fieldMap: [{{ from: "id", to: "id" }}])')
                ext.append(f'  @exposeField(field: "update_{low}.{sub}", as: "update_{low}_it", fieldMap: [{{ from: "id", to: "input.id" }}])')
                self.exposed_on.setdefault(tn, []).extend([f"set_{low}", f"update_{low}_it"])
        if ext:
            self.p.extension_sdl = "extend type Mutation\n" + "\n".join(ext) + "\n"
            self.p.tags.add("exposeField")

    def schema_for_reuse(self, objs):
        """Guarantee the shapes the C25 workload needs: a Node type T (hub type) reachable from Query directly,
        through a list, through another object type and through abstract types; T -> T edges."""
        s = self.p.schema
        nodes = self.node_types(objs)
        if not nodes:
            t = s.types[objs[0]]
            t["fields"]["id"] = {"type": nn(named("ID")), "args": {}}
            t["interfaces"].insert(0, "Node")
            nodes = [objs[0]]
        T = nodes[0]
        U = [n for n in objs if n != T][0] if len(objs) > 1 else T
        self.hub_type, self.mid_type = T, U
        t, q = s.types[T], s.types["Query"]
        t["fields"]["peer"] = {"type": named(T), "args": {"n": {"type": named("Int")}}}
        t["fields"]["peers"] = {"type": lst(nn(named(T))), "args": {}}
        t["fields"]["motto"] = {"type": named("String"), "args": {"q": {"type": named("String")}, "first": {"type": named("Int")}}}
        q["fields"]["hubs"] = {"type": nn(lst(nn(named(T)))), "args": {}}
        q["fields"]["hub"] = {"type": named(T), "args": {"id": {"type": nn(named("ID"))}}}
        q["fields"]["mid"] = {"type": named(U), "args": {}}
        s.types[U]["fields"]["toHub"] = {"type": named(T), "args": {"key": {"type": named("String")}}}
        s.types[U]["fields"]["toHubs"] = {"type": lst(named(T)), "args": {}}
        if "Named" in s.types:
            if "Named" not in t["interfaces"]:
                t["interfaces"].append("Named")
                t["fields"].setdefault("label", {"type": named("String"), "args": {}})
            q["fields"]["anyNamed"] = {"type": lst(named("Named")), "args": {}}

    def schema_for_arg_hazard(self, objs):
        s = self.p.schema
        args = {"s": {"type": named("String")}, "t": {"type": named("String")}, "n": {"type": named("Int")},
                "b": {"type": named("Boolean")}, "i": {"type": named("ID")}, "x": {"type": named("Float")},
                "f": {"type": named("FilterInput")}, "c": {"type": named("Color")}, "d": {"type": named("DateTime")}}
        s.types["Query"]["fields"]["probe"] = {"type": named("String"), "args": dict(args)}
        s.types["Query"]["fields"]["probeObj"] = {"type": named(objs[0]), "args": dict(args)}
        s.types[objs[0]]["fields"]["probe"] = {"type": named("Int"), "args": dict(args)}

    def wrap(self, t, leaf):
        r = self.rng
        x = r.random()
        if x < 0.35:
            return t
        if x < 0.6:
            return nn(t)
        if x < 0.75:
            return lst(t)
        if x < 0.85:
            return nn(lst(nn(t)))
        if x < 0.93:
            return lst(nn(t))
        return nn(lst(t))

    def gen_args(self, leafs):
        r = self.rng
        args = {}
        for an in r.sample(["first", "skip", "q", "filter", "only", "key", "kind"], r.randint(1, 3)):
            if an == "filter":
                t = named("FilterInput")
            elif an == "kind":
                t = named("Color")
            else:
                t = named(r.choice(["String", "Int", "Boolean", "ID", "Float"]))
            if r.random() < 0.3:
                t = nn(t)
            ad = {"type": t}
            if nullable(t) and r.random() < 0.25 and base(t) in ("Int", "String", "Boolean"):
                ad["default"] = {"Int": ("int", 3), "String": ("str", "dflt"), "Boolean": ("bool", True)}[base(t)]
            args[an] = ad
        return args

    # -- values ----------------------------------------------------------
    def literal_for(self, t, variables, allow_var=True):
        """A well-typed value for argument type t, possibly using / creating a variable.
        variables: list of (name, type, default) being accumulated for the enclosing declaration."""
        r, o = self.rng, self.o
        b = base(t)
        depth = list_depth(t)
        use_var = allow_var and (depth > 0 or b in ("Color", "DateTime") or r.random() < 0.4)
        if use_var:
            # reuse a variable of exactly this type or create one
            for n, vt, _ in variables:
                if type_str(vt) == type_str(t) and r.random() < 0.6:
                    return ("var", n)
            n = f"v{len(variables)}"
            variables.append((n, t, None))
            return ("var", n)
        if nullable(t) and r.random() < 0.1:
            return ("null",)
        if b == "Int":
            return ("int", r.choice([0, 1, 5, 42, -1, -5]) if o["negative_ints"] else r.choice([0, 1, 5, 42]))
        if b == "Float":
            return ("int", r.choice([0, 2, 10]))
        if b == "Boolean":
            return ("bool", r.random() < 0.5)
        if b == "String":
            if o["hazard_strings"]:
                return ("str", r.choice(HOSTILE_STRINGS))
            return ("str", r.choice(["a", "b", "hello", "x1"]))
        if b == "ID":
            return r.choice([("str", "id1"), ("int", 7)])
        if self.p.schema.kind(b) == "INPUT":
            fields = self.p.schema.types[b]["fields"]
            entries = []
            for fn, fd in fields.items():
                if not nullable(fd["type"]) or r.random() < 0.5:
                    entries.append((fn, self.literal_for(fd["type"], variables, allow_var and o["objects_args"])))
            return ("obj", entries)
        # enum / custom scalar without variables allowed: cannot be written as a literal
        n = f"v{len(variables)}"
        variables.append((n, t, None))
        return ("var", n)

    def args_for(self, argdefs, variables, allow_missing_optional=True):
        r = self.rng
        out = []
        for an, ad in argdefs.items():
            required = not nullable(ad["type"]) and ad.get("default") is None
            if required or r.random() < 0.6:
                out.append((an, self.literal_for(ad["type"], variables)))
        r.shuffle(out)
        return out

    # -- selections ------------------------------------------------------
    def gen_selections(self, tname, variables, depth, avail_client, used_keys=None):
        """Selections on (object or abstract) type tname."""
        r, s, o = self.rng, self.p.schema, self.o
        sels, keys = [], set()
        t = s.types[tname]
        fields = list(t["fields"].items())
        r.shuffle(fields)
        nsel = r.randint(1, 3) if depth < 2 else r.randint(0, 1)
        for fname, fd in fields[:nsel + 1]:
            b = base(fd["type"])
            alias = None
            if o["aliases"] and r.random() < 0.25:
                alias = r.choice(["a", "b", "c", "renamed", "x"]) + str(r.randint(0, 9))
            key = alias or fname
            if key in keys:
                continue
            if not s.is_leaf(b) and depth >= o["max_depth"]:
                continue
            # arguments (and the variables they create) only once the selection is certain to be kept
            args = self.args_for(fd.get("args", {}), variables)
            if s.is_leaf(b):
                dirs = ["updatable"] if o["updatable"] and r.random() < 0.1 and not args else []
                sels.append(Sel("scalar", fname, tname, fd["type"], alias, args, dirs))
            else:
                sub = self.gen_selections(b, variables, depth + 1, avail_client)
                sels.append(Sel("object", fname, tname, fd["type"], alias, args, [], sub, b))
            keys.add(key)
        if s.is_abstract(tname):
            if r.random() < 0.5 and "__typename" not in keys:
                sels.append(Sel("typename", "__typename", tname, nn(named("String"))))
                keys.add("__typename")
            for c in s.possible_types(tname):
                if r.random() < 0.4 and depth < o["max_depth"]:
                    sub = self.gen_selections(c, variables, depth + 1, avail_client)
                    sels.append(Sel("object", "as" + c, tname, named(c), None, [], [], sub, c))
                    keys.add("as" + c)
        else:
            # client fields defined on this type
            for cd in avail_client.get(tname, []):
                if r.random() < 0.5 and cd.name not in keys:
                    alias = None
                    if o["aliases"] and r.random() < 0.15:
                        alias = "cl" + str(r.randint(0, 9))
                    if (alias or cd.name) in keys:
                        continue
                    cargs = []
                    loadable = o["loadable"] and r.random() < 0.2 and "id" in s.types[tname]["fields"]
                    for vn, vt, dv in cd.variables:
                        required = not nullable(vt) and dv is None
                        if required and not loadable or r.random() < 0.7:
                            cargs.append((vn, self.literal_for(vt, variables)))
                    dirs = ["loadable"] if loadable else []
                    if loadable and o["lazy_loadable"] and r.random() < 0.4:
                        dirs = ["loadable(lazyLoadArtifact: true)"]
                    sels.append(Sel("client", cd.name, tname, None, alias, cargs, dirs, None, cd.ident()))
                    keys.add(alias or cd.name)
            if o["pointers"]:
                for pd in self.ptrs.get(tname, []):
                    if r.random() < 0.5 and pd.name not in keys and depth < o["max_depth"]:
                        pargs = []
                        for vn, vt, dv in pd.variables:
                            if (not nullable(vt) and dv is None) or r.random() < 0.7:
                                pargs.append((vn, self.literal_for(vt, variables)))
                        sub = self.gen_selections(base(pd.target), variables, depth + 1, avail_client)
                        sels.append(Sel("pointer", pd.name, tname, pd.target, None, pargs, [], sub, pd.ident()))
                        keys.add(pd.name)
            if o["exposed"]:
                for en in self.exposed_on.get(tname, []):
                    if r.random() < 0.3 and en not in keys:
                        sels.append(Sel("exposed", en, tname))
                        keys.add(en)
            if o["link"] and r.random() < 0.2 and "__link" not in keys:
                sels.append(Sel("link", "__link", tname))
                keys.add("__link")
            if o["refetch"] and "id" in t["fields"] and tname != "Query" and r.random() < 0.15:
                sels.append(Sel("refetch", "__refetch", tname))
            if r.random() < 0.1 and "__typename" not in keys:
                sels.append(Sel("typename", "__typename", tname, nn(named("String"))))
        if not sels:
            sels.append(Sel("typename", "__typename", tname, nn(named("String"))))
        r.shuffle(sels)
        return sels

    def gen_program(self):
        r, s, o, p = self.rng, self.p.schema, self.o, self.p
        objs = [n for n in s.order if s.types[n]["kind"] == "OBJECT" and n != "Query" and n != "Mutation"]
        avail = {}
        ndecl = r.randint(2, o["max_decls"])
        names = ["Card", "Row", "Detail", "Header", "Avatar", "Summary", "Badge", "Line"]
        if o["prefix_names"]:
            names = ["Foo", "FooBar", "Foo_", "FooBarBaz", "F", "Fo", "field", "entrypointX", "fieldFoo"]
        if o["pointers"]:
            for parent in objs + ["Query"]:
                if r.random() < 0.5:
                    pd = self.make_pointer(parent, "ptr" + str(len(p.decls)))
                    if pd is not None:
                        p.decls.append(pd)
                        self.ptrs.setdefault(parent, []).append(pd)
        # leaf-most client fields first so that later ones can select them (no cycles)
        for i in range(ndecl):
            parent = r.choice(objs + ["Query"] if i >= ndecl - 2 else objs)
            nm = r.choice(names) + (str(i) if r.random() < 0.5 else "")
            if any(d.parent == parent and d.name == nm for d in p.decls) or nm in s.types[parent]["fields"]:
                nm = nm + "X" + str(i)
            variables = []
            sels = self.gen_selections(parent, variables, 0, avail)
            dirs = ["component"] if r.random() < 0.5 else []
            d = Decl("field", parent, nm, variables, dirs, sels)
            if o["hazard_descs"] and r.random() < 0.3:
                d.desc = r.choice(DECL_DESCS)
            if o["var_defaults"]:
                self.add_defaults(d)
            self.finish_variables(d)
            p.decls.append(d)
            avail.setdefault(parent, []).append(d)
        # entrypoints: every Query client field (at least one)
        qfields = [d for d in p.decls if d.parent == "Query" and d.kind == "field"]
        if not qfields:
            variables = []
            sels = self.gen_selections("Query", variables, 0, avail)
            d = Decl("field", "Query", "Root", variables, ["component"] if r.random() < 0.5 else [], sels)
            self.finish_variables(d)
            p.decls.append(d)
            qfields = [d]
        for d in qfields:
            e = Decl("entrypoint", "Query", d.name, directives=["lazyLoad"] if r.random() < 0.1 else [])
            p.decls.append(e)
        if o["mutation_entrypoints"] and "Mutation" in s.types:
            self.gen_mutation_entrypoints(avail)
        if o["reuse"]:
            self.gen_program_reuse(avail)
        if o["arg_hazard"]:
            self.gen_program_arg_hazard(o["arg_hazard"])
        # files
        nfiles = r.randint(1, 4)
        fnames = ["a.ts", "sub/b.tsx", "sub/deep/c.ts", "d.js", "z/e.jsx"][:nfiles]
        for i, d in enumerate(p.decls):
            d.file = r.choice(fnames)
            d.export_name = d.name if d.kind != "entrypoint" else None
            if o["header_ws"]:
                d.header_ws = (r.choice([" ", "  ", "\t", "\n", " \n  "]), r.choice([" ", "  ", "\n  ", "\t"]))
        return p

    # -- additions for the runtime workloads ---------------------------------------------------------
    def add_defaults(self, d):
        r = self.rng
        out = []
        for n, t, dv in d.variables:
            if dv is None and nullable(t) and list_depth(t) == 0 and base(t) in ("Int", "String", "Boolean") and r.random() < 0.4:
                dv = {"Int": ("int", r.choice([7, -3, 0])), "String": ("str", r.choice(["dflt", "d f"])), "Boolean": ("bool", True)}[base(t)]
                self.p.tags.add("variable-default")
            out.append((n, t, dv))
        d.variables = out

    def make_pointer(self, parent, name):
        """`pointer parent.name to T { path { __link } }` where the path of server fields reaches a Node object type."""
        r, s = self.rng, self.p.schema
        nodes = set(self.node_types())
        variables = []

        def search(tname, depth, seen):
            fields = list(s.types[tname]["fields"].items())
            r.shuffle(fields)
            for fname, fd in fields:
                b = base(fd["type"])
                if s.is_leaf(b) or s.kind(b) == "INPUT":
                    continue
                is_list = list_depth(fd["type"]) > 0
                if b in nodes and s.kind(b) == "OBJECT" and r.random() < 0.7:
                    return [("field", fname, fd, b)], b, is_list
                if s.is_abstract(b):
                    poss = [c for c in s.possible_types(b) if c in nodes]
                    if poss and r.random() < 0.7:
                        c = r.choice(poss)
                        return [("field", fname, fd, b), ("as", "as" + c, None, c)], c, is_list
                if depth < 2 and s.kind(b) == "OBJECT" and b not in seen:
                    sub = search(b, depth + 1, seen | {b})
                    if sub is not None:
                        return [("field", fname, fd, b)] + sub[0], sub[1], sub[2] or is_list
            return None

        if parent in ("Mutation",) or s.kind(parent) != "OBJECT":
            return None
        found = search(parent, 0, {parent})
        if found is None:
            return None
        path, target, is_list = found
        inner = [Sel("link", "__link", target)]
        if r.random() < 0.3:
            inner.append(Sel("scalar", "id", target, nn(named("ID"))))
        cur_parent = [parent] + [x[3] for x in path[:-1]]
        for (kind, fname, fd, b), par in reversed(list(zip(path, cur_parent))):
            if kind == "as":
                inner = [Sel("object", fname, par, named(b), None, [], [], inner, b)]
            else:
                args = self.args_for(fd.get("args", {}), variables)
                inner = [Sel("object", fname, par, fd["type"], None, args, [], inner, b)]
        tt = named(target)
        if is_list:
            tt = r.choice([nn(lst(nn(tt))), lst(tt), nn(lst(tt))])
        elif r.random() < 0.3:
            tt = nn(tt)
        d = Decl("pointer", parent, name, variables, [], inner, target=tt)
        self.p.tags.add("client-pointer")
        return d

    def gen_mutation_entrypoints(self, avail):
        r, s, p = self.rng, self.p.schema, self.p
        m = s.types["Mutation"]
        fields = list(m["fields"].items())
        r.shuffle(fields)
        for i, (fname, fd) in enumerate(fields[:r.randint(1, 2)]):
            variables = []
            args = self.args_for(fd["args"], variables)
            b = base(fd["type"])
            sub = self.gen_selections(b, variables, 1, avail)
            sels = [Sel("object", fname, "Mutation", fd["type"], None, args, [], sub, b)]
            d = Decl("field", "Mutation", "Mut" + str(i), variables, ["component"] if r.random() < 0.3 else [], sels)
            p.decls.append(d)
            p.decls.append(Decl("entrypoint", "Mutation", d.name))
            p.tags.add("mutation-entrypoint")

    def gen_program_reuse(self, avail):
        """One hub client field with refetchable selections (__refetch, exposed mutation fields, @loadable child,
        client pointer) reused by several parents at different depths, under lists, asFoo refinements and client
        pointers, and by several entrypoints (Query and Mutation)."""
        r, s, p = self.rng, self.p.schema, self.p
        T, U = self.hub_type, self.mid_type
        S, I = named("String"), named("Int")

        def sc(name, parent, t, args=None, alias=None):
            return Sel("scalar", name, parent, t, alias, args or [])

        def cl(decl, args=None, dirs=None, alias=None):
            return Sel("client", decl.name, decl.parent, None, alias, args or [], dirs or [], None, decl.ident())

        def ob(name, parent, t, sub, args=None, alias=None):
            return Sel("object", name, parent, t, alias, args or [], [], sub, base(t))

        def sval():
            return r.choice([("str", r.choice(["x", "a b", "deep", "it's" if self.o["hazard_strings"] else "its"])), ("null",)])

        tf = s.types[T]["fields"]
        leaf = Decl("field", T, "HubLeaf", [("a", I, ("int", 9) if r.random() < 0.3 else None)], ["component"] if r.random() < 0.5 else [],
                    [sc("motto", T, S, [("first", ("var", "a"))]), sc("id", T, nn(named("ID")))])
        p.decls.append(leaf)
        ptr_t = r.choice([named(T), nn(lst(nn(named(T)))), lst(named(T))])
        ptr = Decl("pointer", T, "hubPtr", [], [], [ob("peers", T, tf["peers"]["type"], [Sel("link", "__link", T)])], target=ptr_t)
        p.decls.append(ptr)
        self.ptrs.setdefault(T, []).append(ptr)
        refetchables = [Sel("refetch", "__refetch", T)]
        for en in self.exposed_on.get(T, []):
            if r.random() < 0.7:
                refetchables.append(Sel("exposed", en, T))
        ldir = "loadable(lazyLoadArtifact: true)" if self.o["lazy_loadable"] and r.random() < 0.3 else "loadable"
        refetchables.append(cl(leaf, [("a", ("int", r.choice([1, -2])))] if r.random() < 0.5 else [], [ldir], alias="lazyLeaf"))
        under_ptr = [sc("motto", T, S, [("q", ("str", "p"))]), cl(leaf, [("a", ("int", 3))])]
        if r.random() < 0.5:
            under_ptr.append(Sel("refetch", "__refetch", T))
        refetchables.append(Sel("pointer", "hubPtr", T, ptr_t, None, [], [], under_ptr, ptr.ident()))
        r.shuffle(refetchables)
        keep = refetchables[:r.randint(2, len(refetchables))]
        hub_sels = [sc("motto", T, S, [("q", ("var", "q"))])] + keep
        if r.random() < 0.5:
            hub_sels.append(cl(leaf, [("a", ("int", 2))], alias="plainLeaf"))
        if r.random() < 0.5:
            hub_sels.append(Sel("link", "__link", T))
        r.shuffle(hub_sels)
        hub = Decl("field", T, "Hub", [("q", S, None)], ["component"] if r.random() < 0.5 else [], hub_sels)
        p.decls.append(hub)
        peer_t, peers_t = tf["peer"]["type"], tf["peers"]["type"]
        uf = s.types[U]["fields"]
        mid = Decl("field", U, "Mid", [("k", S, None)], ["component"] if r.random() < 0.5 else [], [
            ob("toHub", U, uf["toHub"]["type"], [cl(hub, [("q", ("var", "k"))]),
                                                 ob("peer", T, peer_t, [cl(hub)], [("n", ("int", 1))])], [("key", ("var", "k"))]),
            ob("toHubs", U, uf["toHubs"]["type"], [cl(hub, [("q", ("str", "m"))])])])
        p.decls.append(mid)
        qf = s.types["Query"]["fields"]
        a_sels = [ob("hub", "Query", qf["hub"]["type"], [
            cl(hub, [("q", ("var", "qq"))]),
            ob("peer", T, peer_t, [cl(hub, [("q", sval())]), ob("peers", T, peers_t, [cl(hub)])], [("n", ("int", r.choice([2, -2])))])],
            [("id", ("var", "hid"))])]
        if r.random() < 0.7:
            a_sels.append(ob("hubs", "Query", qf["hubs"]["type"], [
                cl(hub), Sel("pointer", "hubPtr", T, ptr_t, None, [], [], [cl(hub, [("q", ("str", "under ptr"))])], ptr.ident())]))
        ra = Decl("field", "Query", "ReuseA", [("hid", nn(named("ID")), None), ("qq", S, None)], ["component"] if r.random() < 0.5 else [], a_sels)
        b_vars = [("w", S, None)]
        b_sels = [ob("mid", "Query", qf["mid"]["type"], [cl(mid, [("k", sval())])])]
        if "anyNamed" in qf:
            b_sels.append(ob("anyNamed", "Query", qf["anyNamed"]["type"], [
                ob("as" + T, "Named", named(T), [cl(hub, [("q", ("var", "w"))])])]))
        else:
            b_sels.append(ob("hubs", "Query", qf["hubs"]["type"], [cl(hub, [("q", ("var", "w"))])]))
        if r.random() < 0.7:
            b_vars.append(("nid", nn(named("ID")), None))
            b_sels.append(ob("node", "Query", qf["node"]["type"], [ob("as" + T, "Node", named(T), [cl(hub)])], [("id", ("var", "nid"))]))
        rb = Decl("field", "Query", "ReuseB", b_vars, [], b_sels)
        p.decls += [ra, rb, Decl("entrypoint", "Query", "ReuseA"), Decl("entrypoint", "Query", "ReuseB", directives=["lazyLoad"] if r.random() < 0.15 else [])]
        if "Mutation" in s.types:
            low = T.lower().rstrip("_")
            mf = s.types["Mutation"]["fields"].get("set_" + low)
            pay = s.types.get(T + "Payload")
            if mf and pay:
                if "target" in pay["fields"]:
                    inner = [ob("target", T + "Payload", pay["fields"]["target"]["type"], [cl(hub, [("q", ("str", "mut"))])])]
                else:
                    inner = [ob("item", T + "Payload", pay["fields"]["item"]["type"], [ob("as" + T, "Named", named(T), [cl(hub, [("q", ("str", "mut"))])])])]
                md = Decl("field", "Mutation", "ReuseM", [("mid", nn(named("ID")), None)], [],
                          [ob("set_" + low, "Mutation", mf["type"], inner + [sc("ok", T + "Payload", named("Boolean"))],
                              [("id", ("var", "mid")), ("label", ("str", "new"))])])
                p.decls += [md, Decl("entrypoint", "Mutation", "ReuseM")]
        # A client field whose refetchable selections differ only through ITS OWN variables, selected once with the two
        # variables bound to the same value (the two refetch paths then collapse into one in that parent: the index of
        # the parent's refetch query has to be repeated in usedRefetchQueries) and once with different values.
        idt = nn(named("ID"))
        pair_sels = [ob("hub", "Query", qf["hub"]["type"], [Sel("refetch", "__refetch", T), sc("motto", T, S, [("q", ("str", "L"))])], [("id", ("var", "l"))], alias="left"),
                     ob("hub", "Query", qf["hub"]["type"], [Sel("refetch", "__refetch", T), sc("motto", T, S, [("q", ("str", "R"))])], [("id", ("var", "r"))], alias="right"),
                     ob("hubs", "Query", qf["hubs"]["type"], [Sel("refetch", "__refetch", T), sc("id", T, idt)])]
        r.shuffle(pair_sels)
        pair = Decl("field", "Query", "HubPair", [("l", idt, None), ("r", idt, None)], ["component"] if r.random() < 0.5 else [], pair_sels)
        same = Decl("field", "Query", "ReuseSame", [("pid", idt, None)], [], [cl(pair, [("l", ("var", "pid")), ("r", ("var", "pid"))])])
        diff = Decl("field", "Query", "ReuseDiff", [("pid", idt, None), ("oid", idt, None)], [],
                    [cl(pair, [("l", ("var", "pid")), ("r", ("var", "oid"))]), cl(same, [("pid", ("var", "oid"))], alias="nestedSame")])
        p.decls += [pair, same, diff, Decl("entrypoint", "Query", "ReuseSame"), Decl("entrypoint", "Query", "ReuseDiff")]
        p.tags.add("reuse")

    def gen_program_arg_hazard(self, n):
        """C12: one field selected n times with adversarial argument lists (aliased k0..), plus crafted colliding pairs."""
        r, s, p = self.rng, self.p.schema, self.p
        variables = [("vs", named("String"), None), ("vn", named("Int"), None), ("vb", named("Boolean"), None),
                     ("vc", named("Color"), None), ("vd", named("DateTime"), None), ("vf", named("FilterInput"), None),
                     ("vi", named("ID"), None), ("vq", nn(named("String")), None)]
        used = set()
        strs = ARG_HAZARD_STRINGS

        def value(an):
            x = r.random()
            if an in ("s", "t"):
                if x < 0.12:
                    used.add("vs")
                    return ("var", "vs")
                if x < 0.18:
                    return ("null",)
                if x < 0.3:
                    return ("str", "".join(r.choice(ARG_HAZARD_ALPHABET) for _ in range(r.randint(0, 6))))
                return ("str", r.choice(strs))
            if an == "n":
                if x < 0.15:
                    used.add("vn")
                    return ("var", "vn")
                return r.choice([("int", v) for v in (0, 1, -1, 5, -5, 42, 10, -10, 2147483647, -2147483648)] + [("null",)])
            if an == "b":
                if x < 0.2:
                    used.add("vb")
                    return ("var", "vb")
                return r.choice([("bool", True), ("bool", False), ("null",)])
            if an == "i":
                if x < 0.15:
                    used.add("vi")
                    return ("var", "vi")
                return r.choice([("str", r.choice(strs)), ("int", r.choice([5, -5, 0, 9007199254740993]))])
            if an == "x":
                return ("int", r.choice([0, 3, -3, 9007199254740993, -9007199254740993, 4611686018427387904]))
            if an == "c":
                used.add("vc")
                return ("var", "vc")
            if an == "d":
                used.add("vd")
                return ("var", "vd")
            if an == "f":
                if x < 0.15:
                    used.add("vf")
                    return ("var", "vf")
                ent = [("q", value("s") if r.random() < 0.8 else ("str", "q"))]
                if ent[0][1] == ("null",):
                    ent = [("q", ("str", ""))]
                if ent[0][1] == ("var", "vs"):     # FilterInput.q is String!
                    used.add("vq")
                    ent = [("q", ("var", "vq"))]
                if r.random() < 0.6:
                    ent.append(("limit", value("n")))
                if r.random() < 0.5:
                    inner = [("n", value("n")), ("label", value("s"))]
                    r.shuffle(inner)
                    ent.append(("inner", ("obj", inner[:r.randint(0, 2)])))
                if r.random() < 0.4:
                    ent.append(("flag", value("b")))
                r.shuffle(ent)
                return ("obj", ent)
            raise ValueError(an)

        names = ["s", "t", "n", "b", "i", "x", "f", "c", "d"]      # `cs: [Color]` via a variable is rejected by the compiler
        weights = [5, 3, 3, 2, 2, 1, 3, 1, 1]
        sels, sub = [], []
        # crafted pairs whose aliases coincide although the argument lists differ
        crafted = [[("s", ("str", "a b"))], [("s", ("str", "a_b"))], [("s", ("str", "a")), ("t", ("str", "b"))],
                   [("s", ("str", "a____t___s_b"))], [("t", ("str", "b")), ("s", ("str", "a"))],
                   [("f", ("obj", [("q", ("str", "x")), ("limit", ("int", 1))]))], [("f", ("obj", [("limit", ("int", 1)), ("q", ("str", "x"))]))],
                   [("f", ("obj", [("q", ("str", "x_limit__l_1"))]))], [("s", ("str", "a\\nb"))], [("s", ("str", "_"))], [("s", ("str", "__"))],
                   [("n", ("int", -5))], [("s", ("var", "vs"))], [("s", ("str", "v_vs"))], [("i", ("str", "5"))], [("i", ("int", 5))]]
        used.add("vs")
        lists = [c for c in crafted if r.random() < 0.5]
        while len(lists) < n:
            k = r.choice([1, 1, 1, 2, 2, 3, 4])
            chosen = []
            for an in r.choices(names, weights, k=k):
                if an not in [c[0] for c in chosen]:
                    chosen.append((an, value(an)))
            lists.append(chosen)
        r.shuffle(lists)
        T = s.order and base(s.types["Query"]["fields"]["probeObj"]["type"])
        for i, args in enumerate(lists[:n]):
            if i % 7 == 3:
                sub.append(Sel("scalar", "probe", T, named("Int"), f"k{i}", args))
            else:
                sels.append(Sel("scalar", "probe", "Query", named("String"), f"k{i}", args))
        if sub:
            oargs = [("s", ("str", "a b")), ("n", ("int", -1))]
            sels.append(Sel("object", "probeObj", "Query", named(T), "obj0", oargs, [], sub, T))
        used = set()

        def scan(v):
            if v[0] == "var":
                used.add(v[1])
            elif v[0] == "obj":
                for _a, b in v[1]:
                    scan(b)
        for _sel in sels + sub:
            for _a, v in _sel.args:
                scan(v)
        d = Decl("field", "Query", "Probe", [v for v in variables if v[0] in used], [], sels)
        p.decls.append(d)
        p.decls.append(Decl("entrypoint", "Query", "Probe"))
        p.arg_lists = lists[:n]
        p.tags.add("arg-hazard")

    def finish_variables(self, d):
        """Well-formedness: every declared variable is used (generation only creates used ones)."""
        return d

    def gen_config(self):
        r, o = self.rng, self.o
        cfg = {"project_root": "./src", "schema": "./schema.graphql", "options": {}}
        if r.random() < 0.3:
            cfg["artifact_directory"] = "./gen"
        opt = cfg["options"]
        if r.random() < 0.5:
            opt["module"] = r.choice(["commonjs", "esmodule"])
        if r.random() < 0.4:
            opt["include_file_extensions_in_import_statements"] = r.random() < 0.7
        if r.random() < 0.3:
            opt["no_babel_transform"] = r.random() < 0.7
        if r.random() < 0.3:
            opt["generated_file_header"] = r.choice(["generated", "DO NOT EDIT */ x", "it's // here", "header \\"])
        opt["on_invalid_id_type"] = r.choice(["ignore", "warn", "error"])
        self.p.config = cfg
        return cfg


def generate(seed, profile="core", **opts):
    presets = {
        "core": {},
        "plain": dict(aliases=False, loadable=False, refetch=False, negative_ints=False),
        "text": dict(hazard_strings=True, hazard_descs=True),
        "names": dict(prefix_names=True, header_ws=True),
        "keys": dict(hazard_strings=True, aliases=True),
        # --- runtime checks ---
        # C10: everything the readers can reach: pointers, __link, lazily loaded loadables, exposed mutation fields,
        # Mutation entrypoints, variable defaults
        "rt": dict(pointers=True, link=True, lazy_loadable=True, exposed=True, mutation_entrypoints=True, var_defaults=True,
                   max_decls=7),
        "rt_text": dict(pointers=True, link=True, exposed=True, mutation_entrypoints=True, hazard_strings=True, force_ids=True),
        # C25: the reuse workload on top of a small random program
        "reuse": dict(reuse=True, pointers=True, link=True, lazy_loadable=True, exposed=True, mutation_entrypoints=True,
                      force_ids=True, max_decls=4),
        # C12: argument hazards
        "args": dict(arg_hazard=40, max_decls=2, loadable=False, refetch=False),
        "args_big": dict(arg_hazard=120, max_decls=2, loadable=False, refetch=False),
    }
    o = dict(presets.get(profile, {}))
    o.update(opts)
    g = Generator(seed, profile, **o)
    g.gen_schema()
    g.gen_program()
    g.gen_config()
    g.p.render_files()
    return g.p
