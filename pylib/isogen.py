"""Seeded generator of isograph projects: GraphQL schema + iso literals in source
files + isograph.config.json, well-typed by construction, with hazard features
switched on by profile.  Also the schema model used by the oracles.

Type refs are tuples: ('named', N) | ('list', T) | ('nonnull', T)."""
import json
import os
import random

SCALARS = ["String", "Int", "Float", "Boolean", "ID"]


def named(n):
    return ("named", n)


def lst(t):
    return ("list", t)


def nn(t):
    return ("nonnull", t)


def type_str(t):
    if t[0] == "named":
        return t[1]
    if t[0] == "list":
        return "[" + type_str(t[1]) + "]"
    return type_str(t[1]) + "!"


def base(t):
    while t[0] != "named":
        t = t[1]
    return t[1]


def nullable(t):
    return t[0] != "nonnull"


def list_depth(t):
    d = 0
    while t[0] != "named":
        if t[0] == "list":
            d += 1
        t = t[1]
    return d


def strip_nn(t):
    return t[1] if t[0] == "nonnull" else t


class Schema:
    def __init__(self):
        self.types = {}      # name -> dict(kind, fields{name:{type,args{name:{type,default}},desc}}, interfaces[], possible[], values[], desc)
        self.order = []
        self.exposed = []    # [(root, directive dict)]

    def add(self, name, kind, **kw):
        self.types[name] = dict(kind=kind, fields={}, interfaces=[], possible=[], values=[], desc=None, **kw)
        self.order.append(name)
        return self.types[name]

    def kind(self, n):
        return self.types[n]["kind"] if n in self.types else ("SCALAR" if n in SCALARS else None)

    def is_leaf(self, n):
        return self.kind(n) in ("SCALAR", "ENUM")

    def is_abstract(self, n):
        return self.kind(n) in ("INTERFACE", "UNION")

    def possible_types(self, n):
        k = self.kind(n)
        if k == "OBJECT":
            return [n]
        if k == "UNION":
            return list(self.types[n]["possible"])
        if k == "INTERFACE":
            return [t for t in self.order if self.types[t]["kind"] == "OBJECT" and n in self.types[t]["interfaces"]]
        return []

    def field(self, tname, fname):
        if fname == "__typename":
            return {"type": nn(named("String")), "args": {}}
        return self.types[tname]["fields"].get(fname)

    # ---- printing -------------------------------------------------------
    def sdl(self, desc_style=None):
        out = []
        for n in self.order:
            t = self.types[n]
            k = t["kind"]
            if t.get("desc") is not None:
                out.append(fmt_desc(t["desc"], ""))
            if k == "SCALAR":
                out.append(f"scalar {n}\n")
            elif k == "ENUM":
                out.append(f"enum {n} {{\n" + "".join(f"  {v}\n" for v in t["values"]) + "}\n")
            elif k == "UNION":
                out.append(f"union {n} = " + " | ".join(t["possible"]) + "\n")
            else:
                kw = {"OBJECT": "type", "INTERFACE": "interface", "INPUT": "input"}[k]
                impl = (" implements " + " & ".join(t["interfaces"])) if t["interfaces"] else ""
                lines = []
                for fname, f in t["fields"].items():
                    if f.get("desc") is not None:
                        lines.append(fmt_desc(f["desc"], "  ").rstrip("\n"))
                    args = ""
                    if f.get("args"):
                        args = "(" + ", ".join(
                            f"{a}: {type_str(ad['type'])}" + (f" = {gql_value(ad['default'])}" if ad.get("default") is not None else "")
                            for a, ad in f["args"].items()) + ")"
                    dflt = f" = {gql_value(f['default'])}" if k == "INPUT" and f.get("default") is not None else ""
                    lines.append(f"  {fname}{args}: {type_str(f['type'])}{dflt}")
                out.append(f"{kw} {n}{impl} {{\n" + "\n".join(lines) + "\n}\n")
        return "\n".join(out)

    def to_json(self):
        return {"types": {n: {"kind": t["kind"], "interfaces": t["interfaces"], "possible": self.possible_types(n),
                              "values": t["values"],
                              "fields": {f: {"type": type_str(fd["type"]),
                                             "args": {a: {"type": type_str(ad["type"]), "has_default": ad.get("default") is not None}
                                                      for a, ad in fd.get("args", {}).items()}}
                                         for f, fd in t["fields"].items()}}
                          for n, t in self.types.items()}}


def fmt_desc(text, indent):
    if "\n" in text or '"' in text or "\\" in text:
        body = text.replace('"""', '\\"""')
        return f'{indent}"""\n' + "\n".join(indent + l for l in body.split("\n")) + f'\n{indent}"""\n'
    return f'{indent}"{text}"\n'


def gql_value(v):
    k = v[0]
    if k == "int":
        return str(v[1])
    if k == "str":
        return json.dumps(v[1])
    if k == "bool":
        return "true" if v[1] else "false"
    if k == "null":
        return "null"
    if k == "enum":
        return v[1]
    if k == "var":
        return "$" + v[1]
    if k == "obj":
        return "{" + ", ".join(f"{a}: {gql_value(b)}" for a, b in v[1]) + "}"
    raise ValueError(v)


# ---------------------------------------------------------------------------
# iso declarations
# ---------------------------------------------------------------------------
def iso_value(v):
    k = v[0]
    if k == "str":
        return '"' + v[1] + '"'       # iso string literals are raw (no escape processing)
    if k == "obj":
        return "{ " + ", ".join(f"{a}: {iso_value(b)}" for a, b in v[1]) + " }"
    return gql_value(v)


class Sel:
    """One selection.  kind: scalar | object | client | pointer | typename | link | refetch"""

    def __init__(self, kind, name, parent, ftype=None, alias=None, args=None, directives=None, sels=None, target=None):
        self.kind, self.name, self.parent, self.ftype = kind, name, parent, ftype
        self.alias, self.args, self.directives = alias, args or [], directives or []
        self.sels, self.target = sels, target

    def key(self):
        return self.alias or self.name

    def clone(self):
        return Sel(self.kind, self.name, self.parent, self.ftype, self.alias, list(self.args), list(self.directives),
                   [s.clone() for s in self.sels] if self.sels is not None else None, self.target)

    def to_json(self):
        return {"kind": self.kind, "name": self.name, "parent": self.parent, "alias": self.alias,
                "type": type_str(self.ftype) if self.ftype else None,
                "args": [[a, gql_value(v)] for a, v in self.args], "directives": self.directives,
                "target": self.target,
                "selections": [s.to_json() for s in self.sels] if self.sels is not None else None}


class Decl:
    def __init__(self, kind, parent, name, variables=None, directives=None, sels=None, target=None, desc=None):
        self.kind, self.parent, self.name = kind, parent, name       # field | pointer | entrypoint
        self.variables = variables or []                            # [(name, type, default)]
        self.directives, self.sels, self.target, self.desc = directives or [], sels, target, desc
        self.file = None
        self.header_ws = None

    def ident(self):
        return f"{self.parent}.{self.name}"

    def to_json(self):
        return {"kind": self.kind, "parent": self.parent, "name": self.name,
                "variables": [[n, type_str(t), gql_value(d) if d else None] for n, t, d in self.variables],
                "directives": self.directives, "target": type_str(self.target) if self.target else None,
                "file": self.file,
                "selections": [s.to_json() for s in self.sels] if self.sels is not None else None}


def print_sels(sels, ind, rng, style):
    out = []
    for s in sels:
        line = ind
        if s.alias:
            line += s.alias + ": "
        line += s.name
        if s.args:
            if style.get("multiline_args") and rng.random() < 0.4:
                line += "(\n" + "".join(f"{ind}  {a}: {iso_value(v)}\n" for a, v in s.args) + ind + ")"
            else:
                line += "(" + ", ".join(f"{a}: {iso_value(v)}" for a, v in s.args) + ")"
        for d in s.directives:
            line += " @" + d
        if s.sels is not None:
            line += " {\n" + print_sels(s.sels, ind + "  ", rng, style) + ind + "}"
        out.append(line + ("," if style.get("commas") and rng.random() < 0.5 else "") + "\n")
    return "".join(out)


def print_decl(d, rng, style=None):
    style = style or {}
    ws = d.header_ws or (" ", " ")
    if d.kind == "entrypoint":
        dirs = "".join(" @" + x for x in d.directives)
        return f"entrypoint{ws[0]}{d.parent}.{d.name}{dirs}"
    kw = "field" if d.kind == "field" else "pointer"
    head = f"{kw}{ws[0]}{d.parent}.{d.name}"
    if d.variables:
        head += "(" + ", ".join(
            f"${n}: {type_str(t)}" + (f" = {iso_value(dv)}" if dv is not None else "") for n, t, dv in d.variables) + ")"
    if d.kind == "pointer":
        head += " to " + type_str(d.target)
    for x in d.directives:
        head += " @" + x
    desc = ""
    if d.desc is not None:
        desc = f'\n    """\n    {d.desc}\n    """\n '
    return f"{head}{ws[1]}{desc}{{\n" + print_sels(d.sels, "    ", rng, style) + "  }"


class Project:
    def __init__(self, seed, profile):
        self.seed, self.profile = seed, profile
        self.schema = Schema()
        self.decls = []
        self.files = {}
        self.config = {}
        self.extension_sdl = None
        self.tags = set()

    def decl(self, ident):
        for d in self.decls:
            if d.kind != "entrypoint" and d.ident() == ident:
                return d
        return None

    def entrypoints(self):
        return [d for d in self.decls if d.kind == "entrypoint"]

    def render_files(self, rng=None, layout=None):
        """Source files: `export const X = iso(`...`)(fn)`.  layout: {file: [decl idx]} or None = d.file."""
        rng = rng or random.Random(self.seed ^ 0x5EED)
        files = {}
        style = self.style
        for d in self.decls:
            files.setdefault(d.file, [])
            text = print_decl(d, rng, style)
            d.text = text
            if d.kind == "entrypoint":
                files[d.file].append(f"export const ep_{d.parent}_{d.name} = iso(`{text}`);\n")
            else:
                files[d.file].append(f"export const {d.export_name} = iso(`\n  {text}\n`)((x) => x);\n")
        self.files = {f: "import { iso } from '@iso';\n\n" + "\n".join(parts) for f, parts in files.items()}
        return self.files

    def write(self, root):
        os.makedirs(root, exist_ok=True)
        with open(os.path.join(root, "schema.graphql"), "w") as f:
            f.write(self.schema.sdl())
        cfg = dict(self.config)
        if self.extension_sdl:
            with open(os.path.join(root, "schema-extension.graphql"), "w") as f:
                f.write(self.extension_sdl)
            cfg["schema_extensions"] = ["./schema-extension.graphql"]
        with open(os.path.join(root, "isograph.config.json"), "w") as f:
            json.dump(cfg, f, indent=1)
        for rel, text in self.files.items():
            p = os.path.join(root, cfg["project_root"], rel)
            os.makedirs(os.path.dirname(p), exist_ok=True)
            with open(p, "w") as f:
                f.write(text)
        return root

    def model_json(self):
        return {"seed": self.seed, "profile": self.profile, "tags": sorted(self.tags), "config": self.config,
                "schema": self.schema.to_json(), "decls": [d.to_json() for d in self.decls]}


# ---------------------------------------------------------------------------
# generation
# ---------------------------------------------------------------------------
# strings that the iso language accepts (BMP, no quote/backslash/backtick/line break) but that are
# hostile to the printers downstream (JS string literal, GraphQL text, alias generation)
HOSTILE_STRINGS = ["it's", "a b", "a_b", "a-b", "\u00e9", "\u65e5\u672c", "semi;colon", "$dollar", "{brace}", "",
                   "x" * 30, "*/ end", "<!--", "a'b'c", "#hash", "per%cent", "q?x=1&y=2", "new line n", "\u2028sep"]
HOSTILE_DESCS = ["plain description", "ends comment */ here", "/* opens", "back`tick", "${interp}", 'has "quotes"',
                 "line one\nline two", "unicode \u2028 sep", "trailing backslash \\", "it's"]
DECL_DESCS = ["plain description", "ends comment */ here", "/* opens", "it's", "line one\n    line two", "unicode \u00e9"]


class Generator:
    def __init__(self, seed, profile="core", **opts):
        self.rng = random.Random(seed)
        self.p = Project(seed, profile)
        self.profile = profile
        self.o = dict(hazard_strings=False, hazard_descs=False, negative_ints=True, aliases=True, loadable=True,
                      refetch=True, abstract=True, prefix_names=False, client_args=True, objects_args=True,
                      pointers=False, updatable=False, max_types=4, max_decls=6, header_ws=False, max_depth=3)
        self.o.update(opts)
        self.p.style = {"commas": True, "multiline_args": True}

    # -- schema ----------------------------------------------------------
    def gen_schema(self):
        r, s = self.rng, self.p.schema
        o = self.o
        s.add("Node", "INTERFACE")["fields"]["id"] = {"type": nn(named("ID")), "args": {}}
        nobj = r.randint(2, o["max_types"])
        base_names = ["User", "Pet", "Post", "Item", "Team", "Foo", "Bar"]
        if o["prefix_names"]:
            base_names = ["Foo", "FooBar", "Foo_", "FooBarBaz", "Fo", "Bar"]
        r.shuffle(base_names)
        objs = base_names[:nobj]
        enum = s.add("Color", "ENUM")
        enum["values"] = ["RED", "GREEN", "BLUE"]
        s.add("DateTime", "SCALAR")
        inp2 = s.add("InnerInput", "INPUT")
        inp2["fields"]["n"] = {"type": named("Int"), "args": {}}
        inp2["fields"]["label"] = {"type": named("String"), "args": {}}
        inp = s.add("FilterInput", "INPUT")
        inp["fields"]["q"] = {"type": nn(named("String")), "args": {}}
        inp["fields"]["limit"] = {"type": named("Int"), "args": {}}
        inp["fields"]["inner"] = {"type": named("InnerInput"), "args": {}}
        inp["fields"]["flag"] = {"type": named("Boolean"), "args": {}}
        for n in objs:
            t = s.add(n, "OBJECT")
            if r.random() < 0.7:
                t["fields"]["id"] = {"type": nn(named("ID")), "args": {}}
                t["interfaces"].append("Node")
        ifaces = []
        if o["abstract"] and len(objs) >= 2:
            i = s.add("Named", "INTERFACE")
            i["fields"]["label"] = {"type": named("String"), "args": {}}
            impls = r.sample(objs, r.randint(1, len(objs)))
            for n in impls:
                s.types[n]["interfaces"].append("Named")
                s.types[n]["fields"]["label"] = {"type": named("String"), "args": {}}
            ifaces.append("Named")
            u = s.add("Thing", "UNION")
            u["possible"] = sorted(r.sample(objs, r.randint(1, len(objs))))
            ifaces.append("Thing")
        # scalar and object fields
        leafs = ["String", "Int", "Float", "Boolean", "ID", "Color", "DateTime"]
        targets = objs + ifaces + (["Node"] if any("Node" in s.types[n]["interfaces"] for n in objs) else [])
        fnames = ["name", "title", "count", "score", "flag", "tag", "when", "color", "note", "alt"]
        onames = ["owner", "friend", "items", "best", "thing", "named", "others", "parent"]
        for n in objs + ["Query"]:
            t = s.types.get(n) or s.add(n, "OBJECT")
            for fn in r.sample(fnames, r.randint(2, 5)):
                if fn in t["fields"]:
                    continue
                ft = self.wrap(named(r.choice(leafs)), leaf=True)
                t["fields"][fn] = {"type": ft, "args": self.gen_args(leafs) if r.random() < 0.35 else {}}
                if o["hazard_descs"] and r.random() < 0.5:
                    t["fields"][fn]["desc"] = r.choice(HOSTILE_DESCS)
            for fn in r.sample(onames, r.randint(1, 4)):
                if fn in t["fields"]:
                    continue
                ft = self.wrap(named(r.choice(targets)), leaf=False)
                t["fields"][fn] = {"type": ft, "args": self.gen_args(leafs) if r.random() < 0.4 else {}}
            if o["hazard_descs"] and r.random() < 0.5:
                t["desc"] = r.choice(HOSTILE_DESCS)
        q = s.types["Query"]
        q["fields"]["node"] = {"type": named("Node"), "args": {"id": {"type": nn(named("ID"))}}}
        # make Query first like most schemas
        s.order.remove("Query")
        s.order.insert(0, "Query")
        return s

    def wrap(self, t, leaf):
        r = self.rng
        x = r.random()
        if x < 0.35:
            return t
        if x < 0.6:
            return nn(t)
        if x < 0.75:
            return lst(t)
        if x < 0.85:
            return nn(lst(nn(t)))
        if x < 0.93:
            return lst(nn(t))
        return nn(lst(t))

    def gen_args(self, leafs):
        r = self.rng
        args = {}
        for an in r.sample(["first", "skip", "q", "filter", "only", "key", "kind"], r.randint(1, 3)):
            if an == "filter":
                t = named("FilterInput")
            elif an == "kind":
                t = named("Color")
            else:
                t = named(r.choice(["String", "Int", "Boolean", "ID", "Float"]))
            if r.random() < 0.3:
                t = nn(t)
            ad = {"type": t}
            if nullable(t) and r.random() < 0.25 and base(t) in ("Int", "String", "Boolean"):
                ad["default"] = {"Int": ("int", 3), "String": ("str", "dflt"), "Boolean": ("bool", True)}[base(t)]
            args[an] = ad
        return args

    # -- values ----------------------------------------------------------
    def literal_for(self, t, variables, allow_var=True):
        """A well-typed value for argument type t, possibly using / creating a variable.
        variables: list of (name, type, default) being accumulated for the enclosing declaration."""
        r, o = self.rng, self.o
        b = base(t)
        depth = list_depth(t)
        use_var = allow_var and (depth > 0 or b in ("Color", "DateTime") or r.random() < 0.4)
        if use_var:
            # reuse a variable of exactly this type or create one
            for n, vt, _ in variables:
                if type_str(vt) == type_str(t) and r.random() < 0.6:
                    return ("var", n)
            n = f"v{len(variables)}"
            variables.append((n, t, None))
            return ("var", n)
        if nullable(t) and r.random() < 0.1:
            return ("null",)
        if b == "Int":
            return ("int", r.choice([0, 1, 5, 42, -1, -5]) if o["negative_ints"] else r.choice([0, 1, 5, 42]))
        if b == "Float":
            return ("int", r.choice([0, 2, 10]))
        if b == "Boolean":
            return ("bool", r.random() < 0.5)
        if b == "String":
            if o["hazard_strings"]:
                return ("str", r.choice(HOSTILE_STRINGS))
            return ("str", r.choice(["a", "b", "hello", "x1"]))
        if b == "ID":
            return r.choice([("str", "id1"), ("int", 7)])
        if self.p.schema.kind(b) == "INPUT":
            fields = self.p.schema.types[b]["fields"]
            entries = []
            for fn, fd in fields.items():
                if not nullable(fd["type"]) or r.random() < 0.5:
                    entries.append((fn, self.literal_for(fd["type"], variables, allow_var and o["objects_args"])))
            return ("obj", entries)
        # enum / custom scalar without variables allowed: cannot be written as a literal
        n = f"v{len(variables)}"
        variables.append((n, t, None))
        return ("var", n)

    def args_for(self, argdefs, variables, allow_missing_optional=True):
        r = self.rng
        out = []
        for an, ad in argdefs.items():
            required = not nullable(ad["type"]) and ad.get("default") is None
            if required or r.random() < 0.6:
                out.append((an, self.literal_for(ad["type"], variables)))
        r.shuffle(out)
        return out

    # -- selections ------------------------------------------------------
    def gen_selections(self, tname, variables, depth, avail_client, used_keys=None):
        """Selections on (object or abstract) type tname."""
        r, s, o = self.rng, self.p.schema, self.o
        sels, keys = [], set()
        t = s.types[tname]
        fields = list(t["fields"].items())
        r.shuffle(fields)
        nsel = r.randint(1, 3) if depth < 2 else r.randint(0, 1)
        for fname, fd in fields[:nsel + 1]:
            b = base(fd["type"])
            alias = None
            if o["aliases"] and r.random() < 0.25:
                alias = r.choice(["a", "b", "c", "renamed", "x"]) + str(r.randint(0, 9))
            key = alias or fname
            if key in keys:
                continue
            if not s.is_leaf(b) and depth >= o["max_depth"]:
                continue
            # arguments (and the variables they create) only once the selection is certain to be kept
            args = self.args_for(fd.get("args", {}), variables)
            if s.is_leaf(b):
                dirs = ["updatable"] if o["updatable"] and r.random() < 0.1 and not args else []
                sels.append(Sel("scalar", fname, tname, fd["type"], alias, args, dirs))
            else:
                sub = self.gen_selections(b, variables, depth + 1, avail_client)
                sels.append(Sel("object", fname, tname, fd["type"], alias, args, [], sub, b))
            keys.add(key)
        if s.is_abstract(tname):
            if r.random() < 0.5 and "__typename" not in keys:
                sels.append(Sel("typename", "__typename", tname, nn(named("String"))))
                keys.add("__typename")
            for c in s.possible_types(tname):
                if r.random() < 0.4 and depth < o["max_depth"]:
                    sub = self.gen_selections(c, variables, depth + 1, avail_client)
                    sels.append(Sel("object", "as" + c, tname, named(c), None, [], [], sub, c))
                    keys.add("as" + c)
        else:
            # client fields defined on this type
            for cd in avail_client.get(tname, []):
                if r.random() < 0.5 and cd.name not in keys:
                    alias = None
                    if o["aliases"] and r.random() < 0.15:
                        alias = "cl" + str(r.randint(0, 9))
                    if (alias or cd.name) in keys:
                        continue
                    cargs = []
                    loadable = o["loadable"] and r.random() < 0.2 and "id" in s.types[tname]["fields"]
                    for vn, vt, dv in cd.variables:
                        required = not nullable(vt) and dv is None
                        if required and not loadable or r.random() < 0.7:
                            cargs.append((vn, self.literal_for(vt, variables)))
                    dirs = ["loadable"] if loadable else []
                    sels.append(Sel("client", cd.name, tname, None, alias, cargs, dirs, None, cd.ident()))
                    keys.add(alias or cd.name)
            if o["refetch"] and "id" in t["fields"] and tname != "Query" and r.random() < 0.15:
                sels.append(Sel("refetch", "__refetch", tname))
            if r.random() < 0.1 and "__typename" not in keys:
                sels.append(Sel("typename", "__typename", tname, nn(named("String"))))
        if not sels:
            sels.append(Sel("typename", "__typename", tname, nn(named("String"))))
        r.shuffle(sels)
        return sels

    def gen_program(self):
        r, s, o, p = self.rng, self.p.schema, self.o, self.p
        objs = [n for n in s.order if s.types[n]["kind"] == "OBJECT" and n != "Query" and n != "Mutation"]
        avail = {}
        ndecl = r.randint(2, o["max_decls"])
        names = ["Card", "Row", "Detail", "Header", "Avatar", "Summary", "Badge", "Line"]
        if o["prefix_names"]:
            names = ["Foo", "FooBar", "Foo_", "FooBarBaz", "F", "Fo", "field", "entrypointX", "fieldFoo"]
        # leaf-most client fields first so that later ones can select them (no cycles)
        for i in range(ndecl):
            parent = r.choice(objs + ["Query"] if i >= ndecl - 2 else objs)
            nm = r.choice(names) + (str(i) if r.random() < 0.5 else "")
            if any(d.parent == parent and d.name == nm for d in p.decls) or nm in s.types[parent]["fields"]:
                nm = nm + "X" + str(i)
            variables = []
            sels = self.gen_selections(parent, variables, 0, avail)
            dirs = ["component"] if r.random() < 0.5 else []
            d = Decl("field", parent, nm, variables, dirs, sels)
            if o["hazard_descs"] and r.random() < 0.3:
                d.desc = r.choice(DECL_DESCS)
            self.finish_variables(d)
            p.decls.append(d)
            avail.setdefault(parent, []).append(d)
        # entrypoints: every Query client field (at least one)
        qfields = [d for d in p.decls if d.parent == "Query"]
        if not qfields:
            variables = []
            sels = self.gen_selections("Query", variables, 0, avail)
            d = Decl("field", "Query", "Root", variables, ["component"] if r.random() < 0.5 else [], sels)
            self.finish_variables(d)
            p.decls.append(d)
            qfields = [d]
        for d in qfields:
            e = Decl("entrypoint", "Query", d.name, directives=["lazyLoad"] if r.random() < 0.1 else [])
            p.decls.append(e)
        # files
        nfiles = r.randint(1, 4)
        fnames = ["a.ts", "sub/b.tsx", "sub/deep/c.ts", "d.js", "z/e.jsx"][:nfiles]
        for i, d in enumerate(p.decls):
            d.file = r.choice(fnames)
            d.export_name = d.name if d.kind != "entrypoint" else None
            if o["header_ws"]:
                d.header_ws = (r.choice([" ", "  ", "\t", "\n", " \n  "]), r.choice([" ", "  ", "\n  ", "\t"]))
        return p

    def finish_variables(self, d):
        """Well-formedness: every declared variable is used (generation only creates used ones)."""
        return d

    def gen_config(self):
        r, o = self.rng, self.o
        cfg = {"project_root": "./src", "schema": "./schema.graphql", "options": {}}
        if r.random() < 0.3:
            cfg["artifact_directory"] = "./gen"
        opt = cfg["options"]
        if r.random() < 0.5:
            opt["module"] = r.choice(["commonjs", "esmodule"])
        if r.random() < 0.4:
            opt["include_file_extensions_in_import_statements"] = r.random() < 0.7
        if r.random() < 0.3:
            opt["no_babel_transform"] = r.random() < 0.7
        if r.random() < 0.3:
            opt["generated_file_header"] = r.choice(["generated", "DO NOT EDIT */ x", "it's // here", "header \\"])
        opt["on_invalid_id_type"] = r.choice(["ignore", "warn", "error"])
        self.p.config = cfg
        return cfg


def generate(seed, profile="core", **opts):
    presets = {
        "core": {},
        "plain": dict(aliases=False, loadable=False, refetch=False, negative_ints=False),
        "text": dict(hazard_strings=True, hazard_descs=True),
        "names": dict(prefix_names=True, header_ws=True),
        "keys": dict(hazard_strings=True, aliases=True),
    }
    o = dict(presets.get(profile, {}))
    o.update(opts)
    g = Generator(seed, profile, **o)
    g.gen_schema()
    g.gen_program()
    g.gen_config()
    g.p.render_files()
    return g.p
